"""Harness registry: which Kani harnesses decide which property, in which tier.
Each entry documents the functions encoded, the bounds, the stubs and the assumptions (they are part of the claim
and are copied into the evidence file)."""

COMMON_STUBS = ["std::panic::catch_unwind -> call-through (Kani compiles with panic=abort)"]
FMT = "std::fmt::format -> empty String (error-message text is never the subject)"
CLOCK_FIXED = "Instant::now (std+tokio) -> fixed instant; ElectionTimer::random_duration -> min (timers are not the subject)"

LVL = "tracing LevelFilter::current -> OFF (all tracing macros statically dead; same as running without a subscriber)"
RND = "std::hash::RandomState::new -> fixed keys (OS randomness is a foreign call)"

PROPS = {}


def prop(pid, claim, sources, outside, trusted, harnesses):
    PROPS[pid] = {"claim": claim, "sources": sources, "outside": outside, "trusted": trusted, "harnesses": harnesses}


def H(name, module, tier="quick", crate="core", timeout=None, functions=(), bounds="", stubs=(), assumptions=(), loops=8, common=True):
    """loops = bound given to EVERY loop of the compiled program via --unwindset; the #[kani::unwind(R)] attribute on the
    harness bounds recursion only (see vlib.run_kani)."""
    d = {"name": name, "module": module, "tier": tier, "crate": crate, "functions": list(functions),
         "bounds": bounds + f" | every loop unwound {loops}x (unwinding assertions on), recursion per #[kani::unwind]",
         "stubs": (COMMON_STUBS if common else []) + list(stubs), "assumptions": list(assumptions), "loops": loops}
    if timeout:
        d["timeout"] = timeout
    return d



TRUST_COMPOSE = ("composition argument of DESIGN.md section 4 for this property (standard Raft reasoning over the local "
                 "obligations; written down, not solver-checked)")
TRUST_TOOL = "Kani 0.68 MIR->goto translation, CBMC 6.11 and CaDiCaL are sound"

# ------------------------------------------------------------------------------------------------
h_vote_kernel = H("c01_vote_kernel", "h_election",
                  functions=["ElectionHandler::handle_vote_request", "is_target_log_more_recent"],
                  bounds="current_term, voted_for, request fields: full-width u64/u32; voter log 0..=2 entries (only last_log_id is read); unwind 4",
                  assumptions=["pre-state invariant: a recorded vote never belongs to a term above current_term"])
MAJ_FUNCS = ["ElectionHandler::broadcast_vote_requests", "is_majority", "if_higher_term_found", "is_target_log_more_recent",
             "Membership::is_single_node_cluster (trait default)"]
MAJ_STUBS = [FMT, "Transport::send_vote_requests -> model following the grpc_transport.rs contract (peer_ids = distinct voters other than self, <=1 response per voter)"]


def maj(name, nv):
    return H(name, "h_election", timeout=600, functions=MAJ_FUNCS, stubs=MAJ_STUBS,
             bounds=f"{nv} voters incl. self (container shape concrete: every peer answers), initial_cluster_size 1..=5 independent of the voter set, "
                    "every response field / term / candidate log full width",
             assumptions=["transport contract as modelled (see stubs)"])


h_maj = [maj("c01_election_needs_majority_2voters", 2), maj("c01_election_needs_majority_3voters", 3),
         maj("c01_election_needs_majority_4voters", 4), maj("c01_election_needs_majority_5voters", 5)]
h_c03 = [maj("c03_sole_voter_0peers", 1), maj("c03_sole_voter_1peer", 2), maj("c03_sole_voter_2peers", 3)]
h_quorum = H("c01_quorum_intersection", "h_basic", functions=["is_majority", "majority_count"], bounds="n <= 2^40, a,b <= n")
h_purge_f = H("c05_follower_purge_guard", "h_basic", functions=["FollowerState::can_purge_logs"],
              bounds="commit index, log ids full width; unwind 6 (RaftNodeConfig::default address parsing)", stubs=[CLOCK_FIXED])

prop("C01",
     "Local obligations behind election safety: (a) one voter never grants two different candidates in one term and never "
     "grants a stale term (real handle_vote_request, all inputs), (b) a candidate wins only with granted votes from a strict "
     "majority of the current voters (real broadcast_vote_requests, all memberships up to 5 nodes, all peer behaviours), "
     "(c) two majorities of one voter set intersect (real is_majority).",
     ["d-engine-core/src/election/election_handler.rs", "d-engine-core/src/utils/cluster.rs", "d-engine-core/src/membership.rs"],
     ["message transport / gRPC", "event-loop scheduling across iterations", "membership change during an election (C26)", "crash/restart (C02)"],
     [TRUST_COMPOSE, TRUST_TOOL],
     [h_vote_kernel, h_quorum,
      H("c01_candidate_vote_legality", "h_kernels", functions=["ElectionHandler::check_vote_request_is_legal", "ElectionHandler::if_node_could_grant_the_vote_request", "is_target_log_more_recent"],
        bounds="request, current term, last log id, recorded vote: full width", stubs=[LVL],
        assumptions=["pre-state invariant: a recorded vote never belongs to a term above current_term"])])

prop("C03_OLD",
     "A candidate is declared winner without asking anybody only if the current membership has no other voter (real "
     "broadcast_vote_requests + the Membership trait's default is_single_node_cluster, all memberships up to 5 nodes with "
     "initial_cluster_size independent of the current voter set).",
     ["d-engine-core/src/election/election_handler.rs", "d-engine-core/src/membership.rs"],
     ["that RaftMembership::voters() reflects the committed membership (C26/C28)"],
     [TRUST_COMPOSE, TRUST_TOOL],
     h_c03)

prop("C12",
     "Lease word: after renew(term, deadline) the lease is valid exactly for the same term (mod 2^16) and strictly before the "
     "deadline; revoke/invalidate make it invalid for every clock value; accepted configurations have lease + rtt/2 < "
     "election_timeout_min without wrap-around; on a real LeaderState a renewal anchored at send time S is valid exactly for "
     "clock values below S + lease and only for the leader's term, and become_follower() revokes it for every clock value.",
     ["d-engine-core/src/raft_role/read_lease.rs", "d-engine-core/src/config/raft.rs"],
     ["real clocks", "thread interleavings (the lease is one atomic word)",
      "WHEN the leader renews (handle_append_result / handle_log_flushed: quorum of acknowledgements) and the revoke calls on the inbound-event step-down paths: role-level code that does not finish (DESIGN.md 2b) -- 'a voter majority acknowledged it within the lease window' is NOT decided"],
     [TRUST_COMPOSE, TRUST_TOOL],
     [H("c12_lease_word", "h_basic", functions=["ReadLease::renew", "ReadLease::revoke", "ReadLease::invalidate", "ReadLease::is_valid", "ReadLease::is_valid_for_leader"],
        bounds="term, now: full-width u64; deadline < 2^48 (renew panics above: documented limit)"),
      H("c34_election_and_read_consistency", "h_basic", functions=["ElectionConfig::validate", "ReadConsistencyConfig::validate"],
        bounds="all numeric fields full-width u64/u32, all three default policies", stubs=[FMT]),
      H("c12_leader_lease_window_and_stepdown", "h_more", loops=6, timeout=900,
        functions=["LeaderState::update_lease_timestamp", "LeaderState::is_lease_valid", "LeaderState::become_follower (lease revoke)", "ReadLease::*", "LeaderState::from(&CandidateState)"],
        bounds="leader term < 2^16, send timestamp and lease duration < 2^47 ms, clock value full width",
        stubs=[LVL, CLOCK_FIXED, RND, FMT, "now_ms -> harness-controlled clock value", "std::io::_print -> no-op"])])

prop("C26",
     "Quorum arithmetic: two majorities (is_majority, the predicate elections use) of one voter set of ANY size, even or odd, "
     "intersect, and majority_count is the least majority. Arithmetic of membership batches: the promotion batch size keeps the voter count odd and never exceeds the ready "
     "learners; and the real safety condition -- every majority of the old voter set intersects every majority of the new "
     "one -- holds for single-server changes and is checked for the batch sizes the code allows.",
     ["d-engine-core/src/raft_role/leader_state.rs", "d-engine-core/src/utils/cluster.rs"],
     ["apply-time vs commit-time activation across nodes", "removal batches"],
     [TRUST_COMPOSE, TRUST_TOOL],
     [h_quorum,
      H("c26_batch_size_parity", "h_basic", functions=["calculate_safe_batch_size"], bounds="current, available <= 2^32"),
      H("c26_single_step_majorities_intersect", "h_basic", functions=["majority_count"], bounds="n <= 2^32, k <= 1"),
      H("c26_allowed_single_promotion_is_safe", "h_basic", functions=["calculate_safe_batch_size", "majority_count"], bounds="1 <= n <= 64 voters, <= 64 ready learners, batch k <= 1"),
      H("c26_allowed_single_promotion_is_safe_wide", "h_basic", tier="thorough", timeout=3600, functions=["calculate_safe_batch_size", "majority_count"], bounds="1 <= n <= 2^40 voters, <= 2^40 ready learners, batch k <= 1"),
      H("c26_allowed_batch_promotion_is_safe", "h_basic", functions=["calculate_safe_batch_size", "majority_count"], bounds="1 <= n <= 64 voters, <= 64 ready learners, batch k >= 2")])

prop("C34",
     "Every numeric configuration accepted by the per-section validators satisfies: election min < max; 0 < lease and "
     "lease + rtt/2 < election min (no wrap-around); heartbeat interval, per-request entry cap and both batch limits non-zero; "
     "at least one retained log entry; and RaftConfig::validate (the public entry) enforces all of them together.",
     ["d-engine-core/src/config/raft.rs"],
     ["non-numeric fields (paths, strings)", "RaftNodeConfig::validate's other sections (cluster, network, storage, tls, retry)"],
     [TRUST_TOOL],
     [H("c34_election_and_read_consistency", "h_basic", functions=["ElectionConfig::validate", "ReadConsistencyConfig::validate"],
        bounds="all numeric fields full-width u64/u32, all three default policies", stubs=[FMT]),
      H("c34_replication_and_batching", "h_basic", functions=["ReplicationConfig::validate", "BatchingConfig::validate"],
        bounds="all numeric fields full width", stubs=[FMT]),
      H("c34_snapshot_retention", "h_basic", loops=12, timeout=600, functions=["SnapshotConfig::validate", "config::validate_directory"],
        bounds="nine numeric snapshot fields full width, other fields default",
        stubs=[FMT, "Path::exists / fs::write / fs::remove_file / fs::create_dir_all -> succeed (directory probe of validate_directory is not the subject)"]),
      H("c34_raft_config_composition", "h_basic", loops=12, timeout=900,
        functions=["RaftConfig::validate", "ReplicationConfig::validate", "BatchingConfig::validate", "ElectionConfig::validate", "MembershipConfig::validate",
                   "StateMachineConfig::validate", "SnapshotConfig::validate", "ReadConsistencyConfig::validate", "ReadActorConfig::validate", "WatchConfig::validate", "PersistenceConfig::validate"],
        bounds="election min/max, lease, rtt, heartbeat, per-request cap, both batch limits, retained_log_entries: full width; all other fields default",
        stubs=[FMT, LVL, "filesystem probe of validate_directory -> succeeds"])])

prop("C05",
     "Election restriction (a vote is granted only to a candidate whose last log id is at least as up-to-date) and purge "
     "guards (purge only strictly below the commit index and strictly above the previous purge).",
     ["d-engine-core/src/election/election_handler.rs", "d-engine-core/src/raft_role/follower_state.rs", "d-engine-core/src/raft_role/leader_state.rs"],
     ["cross-node part (every later leader has the entry): composition of C01, election restriction and C09"],
     [TRUST_COMPOSE, TRUST_TOOL],
     [h_vote_kernel, h_purge_f,
      H("c05_leader_purge_guard", "h_more", loops=6, timeout=900, functions=["LeaderState::can_purge_logs"], bounds="commit index, log ids full width", stubs=[LVL, CLOCK_FIXED, RND, FMT]),
      H("c05_learner_purge_guard", "h_more", loops=6, timeout=900, functions=["LearnerState::can_purge_logs"], bounds="commit index, log ids full width", stubs=[LVL, CLOCK_FIXED, RND, FMT])])


prop("C03",
     "The predicate that lets a candidate skip vote collection (Membership::is_single_node_cluster, the trait default that "
     "RaftMembership uses; broadcast_vote_requests returns Ok immediately iff it holds) is true only if the current membership "
     "has no other voter, for every member set of up to 4 peers (any subset learners) and every initial_cluster_size 1..=5.",
     ["d-engine-core/src/membership.rs", "d-engine-core/src/election/election_handler.rs"],
     ["broadcast_vote_requests itself is not executed (its symbolic execution does not finish: DESIGN.md 2b); that it consults only this predicate before returning Ok is read from the source",
      "that RaftMembership::voters() reflects the committed membership (C26/C28)"],
     [TRUST_COMPOSE, TRUST_TOOL],
     [H("c03_single_node_predicate", "h_kernels", loops=6, functions=["Membership::is_single_node_cluster (trait default)", "Membership::initial_cluster_size / voters (model VMem)"],
        bounds="0..=4 peers, any subset learners (symbolic), initial_cluster_size 1..=5 (symbolic, independent of the member set)", stubs=[LVL]),
      H("c03_single_node_predicate_two_voters", "h_kernels", loops=6, functions=["Membership::is_single_node_cluster (trait default)"],
        bounds="2 voter peers (concrete shape), initial_cluster_size 1..=5", stubs=[LVL]),
      H("c03_single_node_predicate_alone", "h_kernels", loops=6, functions=["Membership::is_single_node_cluster (trait default)"],
        bounds="no peers (concrete shape), initial_cluster_size 1..=5", stubs=[LVL])])

prop("C07",
     "Follower commit rule kernels: the commit index a follower adopts is min(leader_commit, its last entry), never beyond the "
     "leader's commit index, never decreasing; a request is accepted only if the follower's entry at prev_log_index has "
     "prev_log_term (or prev is the virtual (0,0) entry), a stale-term request is always rejected, and conflict hints are "
     "the first index of the conflicting term / last+1 and never point past the rejected prev index.",
     ["d-engine-core/src/replication/replication_handler.rs"],
     ["that entries beyond the last NEW entry match the leader (the classic 'index of last new entry' argument) rests on the "
      "leader-side invariant argued in DESIGN.md 4/C07, not solver-checked",
      "the async handle_append_entries path over Vec<Entry> (symbolic execution does not finish, DESIGN.md 2b)",
      "role_state.rs wiring of commit_index_update"],
     [TRUST_COMPOSE, TRUST_TOOL],
     [H("c07_follower_commit_arithmetic", "h_kernels", functions=["ReplicationHandler::if_update_commit_index_as_follower"],
        bounds="all three indexes full-width u64", stubs=[LVL], assumptions=["last_entry_id >= commit_index (committed entries are in the log)"]),
      H("c07_append_request_legality", "h_kernels", loops=6, functions=["ReplicationHandler::check_append_entries_request_is_legal", "AppendEntriesResponse::{success,conflict,higher_term}"],
        bounds="follower log 0..=4 entries with symbolic non-decreasing terms; request term/prev index/prev term full width",
        stubs=[LVL, CLOCK_FIXED, "RaftLog -> array-backed reference log VLog"],
        assumptions=["a request with prev_log_index 0 carries prev_log_term 0 (what build_append_request produces)"])])

prop("C09",
     "Leader-side bookkeeping kernels: a success response sets match_index to the acknowledged index and next_index to "
     "match+1 and is rejected if it carries a higher term; a conflict response never raises match_index and yields "
     "next_index >= 1; the follower-side hints that feed them are checked under C07.",
     ["d-engine-core/src/replication/replication_handler.rs"],
     ["calculate_majority_matched_index (BufferedRaftLog: crossbeam SkipMap, not encodable) and LeaderState::calculate_new_commit_index "
      "(HashMap-heavy: symbolic execution does not finish) -- the majority/current-term rule itself is therefore NOT decided here",
      "mid-flight learner->voter flips across events"],
     [TRUST_COMPOSE, TRUST_TOOL],
     [H("c09_response_to_peer_update", "h_repl", loops=6, functions=["ReplicationHandler::handle_success_response", "ReplicationHandler::handle_conflict_response"],
        bounds="terms, indexes, hints full width; leader log 0..=4 entries", stubs=[LVL, CLOCK_FIXED, "RaftLog -> VLog"]),
      H("c07_append_request_legality", "h_kernels", loops=6, functions=["ReplicationHandler::check_append_entries_request_is_legal"],
        bounds="follower log 0..=4 entries; request fields full width", stubs=[LVL, CLOCK_FIXED, "RaftLog -> VLog"],
        assumptions=["a request with prev_log_index 0 carries prev_log_term 0"])])

prop("C25",
     "SCOPED to the key-range bound of the RocksDB prefix scan: for every prefix and key of up to 3 bytes, a key lies in "
     "[prefix, prefix_successor(prefix)) exactly when it has the prefix, and the upper bound is absent exactly for all-0xFF "
     "prefixes.",
     ["d-engine-server/src/storage/adaptors/rocksdb/rocksdb_state_machine.rs"],
     ["the iterate-then-read-revision ordering of scan_prefix (FFI) -- i.e. the revision half of the property is NOT decided",
      "keys/prefixes longer than 3 bytes"],
     [TRUST_TOOL, "prefix_successor is checked as a verbatim source slice (the file needs the rocksdb FFI feature to compile as a whole); sha256 of the slice is in the evidence"],
     [H("c25_prefix_scan_bound", "h_kernels", loops=6, functions=["prefix_successor (source slice)"], bounds="prefix 1..=3 bytes, key 0..=3 bytes, all byte values"),
      H("c25_prefix_scan_bound_4bytes", "h_kernels", tier="thorough", loops=7, timeout=3600, functions=["prefix_successor (source slice)"], bounds="prefix 1..=4 bytes, key 0..=4 bytes, all byte values")])


prop("C13",
     "SCOPED to the leader's Raft command path: the policy under which a leader serves a read (LeaderState::determine_read_policy, "
     "the function push_client_cmd routes on) is the server default whenever client override is disabled or the client gave no "
     "policy, and the client's policy otherwise -- for all 3x2x4 combinations.",
     ["d-engine-core/src/raft_role/leader_state.rs"],
     ["non-leader routing (RaftRoleState::push_client_cmd on Follower/Candidate/Learner): its role-level harness does not finish (DESIGN.md 2b) -- the first sentence of the property is NOT decided",
      "the gRPC fast path (grpc_raft_service.rs / read_actor.rs) and the embedded read handle, which consult the client's policy themselves"],
     [TRUST_TOOL],
     [H("c13_leader_read_policy", "h_more", loops=6, timeout=400,
        functions=["LeaderState::determine_read_policy", "LeaderState::from(&CandidateState)", "FollowerState::new", "RaftNodeConfig::default"],
        bounds="default policy x allow_client_override x client policy (None / 3 values): all 24 combinations, symbolic",
        stubs=[LVL, CLOCK_FIXED, RND, FMT])])

prop("C37",
     "SCOPED to the two conversions around the log's wire format: write_op_to_proto (client operation -> WriteCommand) followed by "
     "Command::try_from (WriteCommand -> applied Command) preserves key, value, expected value (absent / empty / present) and TTL "
     "for put, put-with-TTL, delete and CAS with keys/values of 0..=2 symbolic bytes and any TTL >= 1; TTL 0 is checked separately.",
     ["d-engine-core/src/raft_role/leader_state.rs", "d-engine-core/src/command.rs"],
     ["the prost varint/bytes codec between the two conversions (client_command_to_entry_payloads / decode_entries): the full round trip does not finish under the cap; prost is trusted library code",
      "keys/values longer than 2 bytes", "the gRPC-side conversion in d-engine-server/src/proto_convert.rs"],
     [TRUST_TOOL],
     [H("c37_convert_insert_delete", "h_more", loops=6, timeout=400, functions=["write_op_to_proto", "Command::try_from(WriteCommand)"],
        bounds="key, value 0..=2 symbolic bytes; TTL None or any u64 >= 1", stubs=[FMT]),
      H("c37_convert_cas", "h_more", loops=6, timeout=400, functions=["write_op_to_proto", "Command::try_from(WriteCommand)"],
        bounds="key, new value, expected: 1 symbolic byte; expected absent / empty / present", stubs=[FMT]),
      H("c37_convert_ttl_zero", "h_more", loops=6, timeout=400, functions=["write_op_to_proto", "Command::try_from(WriteCommand)"],
        bounds="put with TTL Some(0), 1-byte key/value", stubs=[FMT])])

# ------------------------------------------------------------------------------------------------
# Engine S: shadow build of buffered_raft_log.rs (kani/shadow)
import seqs  # noqa: E402
SHADOW_STUBS = [
    "shadow build (kani/shadow/gen.py): buffered_raft_log.rs compiled verbatim except rewrites R1-R6 (imports -> shim models, MAX_TERM_SEGMENTS 1024 -> 3, "
    "trait impl -> inherent impl, caller-side async fns de-sugared: `.await` -> take the reply the model IO thread already sent)",
    "crossbeam_skiplist::SkipMap -> ordered map model over 6 slots (exceeding it fails the harness)",
    "std::collections::HashMap (remove_range's scratch map) -> insertion-ordered array map",
    "tokio mpsc/oneshot/Notify -> single-threaded typed-static channels; the model IO thread acknowledges every control task at send time",
    "d_engine_proto Entry -> {index, term, payload:u8}; tracing macros and format! -> no-ops; ScopedTimer -> no-op",
    "LogStore/MetaStore -> in-memory model (the disk side is not observed by these harnesses)",
]
SHADOW_FUNCS = ["BufferedRaftLog::{new, append_entries, filter_out_conflicts_and_append, purge_logs_up_to, reset, reset_internal, insert_to_memory, "
                "remove_range, update_term_indexes, entry, entry_term, first_entry_id, last_entry_id, last_entry, last_log_id, is_empty, "
                "first_index_for_term, last_index_for_term}", "TermSegments::{new, get, on_append, clear}"]
C19_ASSUME = ["requests are ones a Raft leader can send to this follower: entries prev+1.. with non-decreasing terms >= prev_term, and a request entry "
              "that agrees with the follower in (index, term) implies all earlier request entries agree (Log Matching)",
              "leader-path appends are at last_log_id+1 with a term >= the last term",
              "a purge cutoff names the id of an entry: if that index is still in the log its term is the cutoff's term",
              "payload is a function of (index, term) (same id => same content, as Log Matching guarantees)"]
_c19 = []
for _hd in seqs.all_harnesses():
    _pre = ("the concrete log " + str([f"{i+1}:t{t}" for i, t in enumerate(_hd["prefix"])])) if _hd["prefix"] else "the empty log"
    _c19.append(H(_hd["name"], "gen_brl::h", tier=_hd["tier"], crate="shadow", timeout=600 if _hd["tier"] == "quick" else 1200, common=False, loops=7,
                  functions=SHADOW_FUNCS, stubs=SHADOW_STUBS, assumptions=C19_ASSUME,
                  bounds=f"ONE operation of shape {_hd['shape']} (a=leader append of n entries, f=conflict-aware append of n entries, pu=purge, rs=reset) applied to {_pre}; "
                         f"indexes 1..={seqs.NB}, terms 1..={seqs.TB} symbolic, prev index/term and purge cutoff symbolic; every RaftLog query compared afterwards"))
_c19.append(H("c19_term_segments_many_terms", "gen_brl::h", crate="shadow", timeout=600, common=False, loops=8,
              functions=["TermSegments::{new, on_append, get}"], stubs=SHADOW_STUBS[:1],
              assumptions=["six consecutive entries 1..=6 appended to a fresh TermSegments in one call"],
              bounds="terms 1..=6 symbolic, non-decreasing (up to 5 term changes: more than the 3 segments of the shadow build, rewrite R3; the real capacity is 1024)"))
h_c19_pu = [h for h in _c19 if h["name"] == "c19_empty_pu"][0]
prop("C19",
     "after ONE log operation (leader append, conflict-aware append incl. the start-from-scratch path, purge, reset) on the empty log -- thorough tier: also on two "
     "concrete non-empty logs -- every query of the buffered log (first/last index, last log id, entry, entry_term incl. the purge boundary, first/last index of a "
     "term, is_empty, last_entry, and the conflict-append result) equals the answer of a plain indexed log applying Raft's rules; the real buffered_raft_log.rs "
     "source is executed (shadow build).",
     ["d-engine-core/src/storage/buffered_raft_log.rs"],
     ["SEQUENCES of operations: a second symbolic operation, and a conflict-append of >= 1 entries onto a non-empty log (the truncate-and-re-append orders the "
      "property's note is about), exceed 28 GB / 900 s (measured, DESIGN 2c) and are NOT decided", "get_entries_range", "the IO thread / durability side (C18)",
      "real crossbeam SkipMap / tokio channels (modelled)"],
     [TRUST_TOOL, "the shim models (kani/shadow/src/shim.rs) are faithful to crossbeam-skiplist / tokio::sync for the single-threaded use made of them",
      "rewrites R1-R6 of kani/shadow/gen.py preserve the meaning of the file (R6: no caller-side suspension, IO thread infinitely fast)"],
     _c19)
PROPS["C19"]["harnesses"] = _c19

# C09: the majority / current-term rule on the REAL log (shadow build)
_c09m = [H(f"c09_majority_rule_{k}_peer{'s' if k > 1 else ''}", "gen_brl::h", crate="shadow", timeout=600, common=False, loops=7,
           functions=["BufferedRaftLog::calculate_majority_matched_index", "BufferedRaftLog::entry", "BufferedRaftLog::last_entry_id"],
           stubs=SHADOW_STUBS,
           assumptions=["log state constructed directly: entries 1..=3 with symbolic non-decreasing terms 1..=3, max_index 3 (the function reads last_entry_id and entry(i) only)",
                        "the match indexes passed in are those of the voter peers (the voter filter of LeaderState::calculate_new_commit_index is NOT executed)"],
           bounds=f"{k} voter peer(s) + the leader; match indexes 0..=3, current term <= 4, commit index <= 3, all symbolic")
         for k in (1, 2, 3, 4)]
_c09v = [H(f"c09_voter_filter_{a}_peers_{b}_targets", "gen_leader::h", crate="shadow", timeout=600, common=False, loops=6,
           functions=["LeaderState::calculate_new_commit_index (verbatim function slice, kani/shadow/gen.py)"],
           stubs=["function slice: the method's source text compiled as a method of a struct holding exactly the fields it reads (match_index, cluster_metadata.replication_targets, "
                  "commit index, current term); match_index: std HashMap -> insertion-ordered array map; raft_log -> recording model that stores the match indexes it is handed and answers "
                  "with a symbolic Option<u64>; NodeRole discriminants parsed from d-engine-proto's generated source"],
           assumptions=["peer ids in match_index are distinct (map keys); replication-target ids are distinct"],
           bounds=f"{a} peers in match_index, {b} replication targets; ids, roles (any i32), match indexes, commit index, term: full width symbolic")
         for (a, b) in ((2, 2), (3, 2), (3, 3))]
_c09v.append(dict(_c09v[-1], name="c09_voter_filter_4_peers_3_targets", tier="thorough", timeout=1200,
                  bounds=_c09v[-1]["bounds"].replace("3 peers in match_index, 3 replication targets", "4 peers in match_index, 3 replication targets")))
_c09v.append(dict(_c09v[2], name="c09_voter_filter_all_voters_3_peers",
                  bounds="3 peers = the 3 replication targets, all Followers (ids and roles CONCRETE: the number of match indexes handed over is then concrete); match indexes, commit index, term: full width symbolic"))
PROPS["C09"]["harnesses"] += _c09m + _c09v
PROPS["C09"]["sources"].append("d-engine-core/src/raft_role/leader_state.rs")
PROPS["C09"]["sources"].append("d-engine-core/src/storage/buffered_raft_log.rs")
PROPS["C09"]["claim"] += (" Plus the commit rule itself on the real BufferedRaftLog (shadow build): calculate_majority_matched_index returns an index only if a "
                          "strict majority of {voter peers, leader} holds it, it is not below the old commit index and its entry is from the current term; and it "
                          "returns the last index when everybody holds the whole log and its last entry is from the current term (1..=4 voter peers).")
PROPS["C09"]["claim"] += (" And the voter filter (verbatim slice of LeaderState::calculate_new_commit_index): the match indexes handed to the commit rule are exactly those of the "
                          "peers that are current replication targets with a non-learner role (learners and removed peers never count), the rule is consulted once with the "
                          "leader's term and commit index, and a returned commit index is the rule's answer and above the old one.")
PROPS["C09"]["outside"] = ["update_match_index / the HashMap bookkeeping itself (std HashMap: symbolic execution does not finish); the slice replaces the map by an array model",
                           "mid-flight learner->voter flips across events",
                           "more than 4 voter peers; logs longer than 3 entries"]
PROPS["C09"]["trusted"] = PROPS["C09"]["trusted"] + ["rewrites R1-R6 of kani/shadow/gen.py and the shim models (see C19)"]

# C08: request assembly (verbatim slice of ReplicationHandler::retrieve_to_be_synced_logs_for_peers)
_c08_stubs = ["function slice: the method's source text compiled as a method of a struct holding the one field it reads (my_id); std HashMap -> insertion-ordered array map "
              "(2 slots: the leader itself and one peer); raft_log -> leader log model 1..=last (term 1) followed by the just-appended new entries (term 2), whose get_entries_range returns exactly the requested entries; "
              "tracing macros / ScopedTimer -> no-ops; Entry -> {index, term, payload:u8}"]
prop("C08",
     "SCOPED to the leader's request assembly: the entries retrieve_to_be_synced_logs_for_peers selects for a peer are consecutive and start at the peer's next index "
     "(what build_append_request then sends with prev_log_index = next-1), and nothing is selected for the leader itself -- for every leader log length <= 4, next index, "
     "per-request cap 1..=2 and 0..=1 new entries. Decided in three regions: no new entries (any backlog), one new entry with the backlog within the cap, one new entry with the "
     "backlog exceeding the cap (known finding: the request is gapped).",
     ["d-engine-core/src/replication/replication_handler.rs"],
     ["the follower side (filter_out_conflicts_and_append appends the tail of a request without a contiguity check): a conflict-append onto a non-empty log is not decidable (DESIGN 2c); "
      "that a gapped request produces a gapped follower log is read from the source, not decided", "build_append_request / prepare_batch_requests (HashMap + Vec<Entry> request materialisation)",
      "more than one peer, caps above 2, more than one new entry"],
     [TRUST_TOOL, "the slice environment (kani/shadow/src/rshim.rs) is faithful to std HashMap / RaftLog::get_entries_range for the use made of them"],
     [H(n, "gen_repl::h", crate="shadow", timeout=600, common=False, loops=6,
        functions=["ReplicationHandler::retrieve_to_be_synced_logs_for_peers (verbatim function slice, kani/shadow/gen.py)"], stubs=_c08_stubs,
        assumptions=["leader log holds every index 1..=last (no compaction)", "new entries are at last+1.. (what the leader just appended)"],
        bounds=b)
      for (n, b) in (("c08_request_contiguous_no_new_entries", "last <= 4, next 1..=last+1, cap 1..=2, no new entries"),
                     ("c08_request_contiguous_new_entry_backlog_within_cap", "last <= 4, next 1..=last+1, cap 1..=2, one new entry, backlog (last-next+1) <= cap"),
                     ("c08_request_contiguous_new_entry_backlog_exceeds_cap", "last <= 4, next 1..=last+1, cap 1..=2, one new entry, backlog > cap"))]
     + [H("c08_request_contiguous_two_new_entries_backlog_within_cap", "gen_repl::h", tier="thorough", crate="shadow", timeout=1200, common=False, loops=6,
          functions=["ReplicationHandler::retrieve_to_be_synced_logs_for_peers (verbatim function slice, kani/shadow/gen.py)"], stubs=_c08_stubs,
          assumptions=["leader log holds every index 1..=last (no compaction)", "new entries are at last+1.. (what the leader just appended)"],
          bounds="last <= 4, next 1..=last+1, cap 1..=2, two new entries, backlog <= cap"),
        H("c08_request_contiguous_two_new_entries_short_log", "gen_repl::h", tier="thorough", crate="shadow", timeout=1200, common=False, loops=6,
          functions=["ReplicationHandler::retrieve_to_be_synced_logs_for_peers (verbatim function slice, kani/shadow/gen.py)"], stubs=_c08_stubs,
          assumptions=["leader log holds every index 1..=last (no compaction)", "new entries are at last+1.. and already in the leader log"],
          bounds="last <= 2, next 1..=last+1, cap 1..=2, two new entries, backlog <= cap")])

# C07: the follower's AppendEntries handling (verbatim slices of the three ReplicationHandler methods + d-engine-proto's response helpers)
_c07f = [H(n, "gen_follower::h", crate="shadow", timeout=600, common=False, loops=6,
           functions=["ReplicationHandler::handle_append_entries (verbatim slice; async de-sugared: its single .await is on the log's conflict-aware append)",
                      "ReplicationHandler::check_append_entries_request_is_legal (verbatim slice)", "ReplicationHandler::if_update_commit_index_as_follower (verbatim slice)",
                      "d-engine-proto impl AppendEntriesResponse {success, conflict, higher_term, is_success, is_conflict, is_higher_term} (verbatim slice)"],
           stubs=["function slices compiled as methods of a struct holding the one field they read (my_id); request / response / snapshot structs re-declared with the fields the code "
                  "touches; raft_log -> contiguous follower log model (0..=3 entries, symbolic terms) whose filter_out_conflicts_and_append RECORDS its arguments and answers with a "
                  "symbolic result and a symbolic new last index; tracing macros / ScopedTimer -> no-ops"],
           assumptions=["follower log is contiguous 1..=len with non-decreasing terms (no purge boundary)"],
           bounds=b + "; request term/prev/commit, follower term/commit: full width symbolic")
         for (n, b) in (("c07_follower_step_heartbeat", "empty AppendEntries"), ("c07_follower_step_one_entry", "request with 1 entry"),
                        ("c07_follower_step_two_entries", "request with 2 entries"))]
PROPS["C07"]["harnesses"] += _c07f
PROPS["C07"]["claim"] += (" Plus the WIRING of the follower's handler (verbatim slices of handle_append_entries, check_append_entries_request_is_legal, if_update_commit_index_as_follower and "
                          "the response helpers): a request whose term is stale or whose prev entry does not match is never accepted; a rejected request changes neither the log nor the commit "
                          "index; an accepted one appends exactly its own entries at its own prev, sets a commit index only when the leader's is ahead and never beyond min(leader commit, own last index), and acknowledges "
                          "what the append returned.")
PROPS["C07"]["outside"] = [o for o in PROPS["C07"]["outside"] if "handle_append_entries" not in o] + [
    "the conflict-aware append itself on a non-empty log (BufferedRaftLog::filter_out_conflicts_and_append: not decidable, DESIGN 2c) -- the wiring harness records the call",
    "that the leader's log really contains the entries it reports as committed (leader-side invariants)"]

# C29: the leader's client-write response bookkeeping (verbatim slices of three LeaderState methods)
_c29_stubs = ["function slices compiled as methods of a struct holding exactly the fields they touch (pending_client_writes, pending_write_apply, write_propose_times, pending_reads, term); "
              "std BTreeMap / HashMap -> small array models with the API subset used (split_off, by-value iteration in key order, range(..=k), get/insert/remove/clear); "
              "MaybeCloneOneshotSender -> recording sender (counts and remembers what each client was sent); ClientResponse / ErrorCode / ApplyResult -> structural stand-ins; "
              "metrics::histogram!, trace!, Instant::elapsed, execute_pending_reads, check_and_trigger_snapshot -> no-ops"]
prop("C29",
     "SCOPED to the leader's response bookkeeping AFTER a write has been registered: (commit drain) a pending batch is answered only once the commit index has reached its end index; writes "
     "that do not wait for the state machine get exactly one success, writes that do are parked under their OWN log index and get nothing yet; batches beyond the commit index stay pending. "
     "(apply results) a parked write is answered exactly once, when and only when a result for its own index arrives, with success iff that result succeeded and CAS-failure otherwise; "
     "results without a waiter answer nobody. (step-down) every still-pending write gets exactly one error and nothing stays registered.",
     ["d-engine-core/src/raft_role/leader_state.rs"],
     ["how a write gets registered (batch start index = last_entry_id+1, keying by end index in execute_and_process_raft_rpc: HashMap/BTreeMap/async on a live LeaderState, not executable)",
      "waiters parked in pending_write_apply at step-down (drain_pending_writes_with_error does not touch them; where they are failed is role-level code)",
      "deadline expiry; more than two batches / three waiters / two apply results"],
     [TRUST_TOOL, "the slice environment (kani/shadow/src/cshim.rs) is faithful to std BTreeMap / HashMap / the oneshot sender for the use made of them"],
     [H(n, "gen_client::h", crate="shadow", timeout=900, common=False, loops=6,
        functions=[f], stubs=_c29_stubs, assumptions=a, bounds=b)
      for (n, f, a, b) in (
          ("c29_commit_drain", "LeaderState::drain_pending_client_writes (verbatim function slice)", ["two pending batches: entries [a, a+1] then [a+2]"],
           "start index < 1000 symbolic, wait_for_apply flags symbolic, new commit index full width"),
          ("c29_apply_results_to_responses", "LeaderState::handle_apply_completed (verbatim function slice; async fn without awaits, de-sugared)",
           ["three waiters at consecutive indexes; the two apply results have distinct indexes (one result per log entry)"],
           "waiter index < 1000 symbolic; result indexes full width, outcomes symbolic"),
          ("c29_apply_results_two_waiters", "LeaderState::handle_apply_completed (verbatim function slice; async fn without awaits, de-sugared)",
           ["two waiters at consecutive indexes; two results at consecutive indexes starting at or just below the first waiter"],
           "waiter index < 1000 symbolic; outcomes symbolic"),
          ("c29_apply_results_unparked_entry_then_cas", "LeaderState::handle_apply_completed (verbatim function slice; async fn without awaits, de-sugared)",
           ["waiters at indexes 6 and 7; results for index 5 (nobody waits: e.g. the term's no-op) and 6"], "indexes concrete, outcomes symbolic"),
          ("c29_step_down_drain", "LeaderState::drain_pending_writes_with_error (verbatim function slice)", ["two pending batches (three writes)"], "flags symbolic"))])

# C36: the follower-side merge rule (verbatim slice of Raft::merge_append_entries)
prop("C36",
     "SCOPED to the merge rule itself: with two AppendEntries requests and another event queued, the second request is merged into the first ONLY if it starts exactly where the first "
     "ends and carries the same term; the merged request keeps the first request's prev index/term, its entries are exactly the concatenation (nothing lost, duplicated or reordered), "
     "its leader commit index is the larger of the two, both senders stay attached, and the following event keeps its place; a request that is not merged (gap, other term, cap "
     "max_merge_entries) stays queued unchanged behind the first one.",
     ["d-engine-core/src/raft.rs"],
     ["that handling the merged request gives the same log / commit index / acknowledgements as handling the two one at a time: this needs the follower's conflict-append on a non-empty "
      "log (not decidable, DESIGN 2c); in particular every merged sender receives the MERGED request's acknowledgement (read from role_state.rs, not decided)",
      "more than two requests; requests of more than two entries"],
     [TRUST_TOOL, "the slice environment (kani/shadow/src/mshim.rs) is faithful to std VecDeque for the use made of it"],
     [H(n, "gen_merge::h", crate="shadow", timeout=600, common=False, loops=8,
        functions=["Raft::merge_append_entries (verbatim function slice, kani/shadow/gen.py)"],
        stubs=["function slice compiled as a method of a struct holding the two fields it touches (buffered_inbound_event, ctx.node_config.raft.batching.max_merge_entries); "
               "VecDeque -> 4-slot array model; InboundEvent -> {AppendEntries(request, senders), Other}; AppendEntriesRequest / Entry -> structural stand-ins"],
        assumptions=["queue = request A, request B, one other event (three-request harness: A, B, C)"], bounds=b + "; terms, prev indexes (< 1000), commit indexes full width, max_merge_entries 0..=8: symbolic")
      for (n, b) in (("c36_merge_two_requests_1_1", "A and B carry one entry each"), ("c36_merge_two_requests_2_1", "A carries two entries, B one"),
                     ("c36_merge_heartbeat_then_entry", "A is empty (heartbeat), B carries one entry"),
                     ("c36_merge_three_requests", "three queued requests of one entry each (the running end must advance)"))])

# C05: the last log id that feeds the election restriction is right after compaction (purge boundary)
PROPS["C05"]["harnesses"] += [h_c19_pu] + [
    H(f"c05_scratch_request_keeps_agreeing_entries_{n}", "gen_brl::h", crate="shadow", timeout=900, common=False, loops=7,
      functions=["BufferedRaftLog::filter_out_conflicts_and_append (prev (0,0) branch)", "BufferedRaftLog::reset", "BufferedRaftLog::append_entries"],
      stubs=SHADOW_STUBS, assumptions=C19_ASSUME[:1] + ["follower log is the concrete [1:t1, 2:t1, 3:t2]"],
      bounds=f"any Raft-valid request with prev (0,0) and {n} entr{'y' if n == 1 else 'ies'} (terms symbolic 1..=3)") for n in (1, 2)]
PROPS["C05"]["sources"].append("d-engine-core/src/storage/buffered_raft_log.rs")
PROPS["C05"]["claim"] += (" Plus, on the real BufferedRaftLog (shadow build): after a purge the log still reports the purge boundary as its last log id / entry term "
                          "(the value the election restriction and the AppendEntries consistency check compare against).")

prop("WIP", "work in progress batch", [], [], [], [
    H("c01_candidate_stepdown_keeps_vote", "h_more", timeout=1200, loops=9),
])
prop("PROBE", "probes", [], [], [], [
    H("probe_default_cfg", "probe", timeout=600),
])
