#!/usr/bin/env python3
"""profile one harness: tools/prof.py <crate> <module> <harness> [loops] [slot] -> prints CBMC phase timings"""
import sys, os, re, subprocess, time
sys.path.insert(0, os.path.dirname(os.path.abspath(__file__)))
import vlib
crate, module, h = sys.argv[1:4]
loops = int(sys.argv[4]) if len(sys.argv) > 4 else 8
slot = int(sys.argv[5]) if len(sys.argv) > 5 else 0
tmo = int(os.environ.get("PROF_TIMEOUT", "1200"))
vlib.prep_crate(crate)
cdir = os.path.join(vlib.KANI_DIR, crate)
tdir = vlib.target_dir(crate, slot)
base = f"cargo kani -Z stubbing -Z unstable-options --target-dir {tdir} --harness {module}::{h} --exact " + os.environ.get("PROF_EXTRA", "") + " "
rc, out, _ = vlib.sh(base + "--only-codegen", cwd=cdir, timeout=3600)
if rc != 0:
    print(out[-3000:]); sys.exit(2)
bins = vlib.find_goto_binaries(tdir, [h])
ent = {}
ovr = [x.split("=") for x in os.environ.get("PROF_LOOPS", "").split(";") if x]
for lab, fn, cut in vlib.loop_labels(bins[h]):
    ent[lab] = 1 if cut else loops
    for rx, nn in ovr:
        if re.search(rx, fn):
            ent[lab] = int(nn)
us = ",".join(f"{k}:{v}" for k, v in sorted(ent.items()))
cmd = base + f"--harness-timeout {tmo}s " + vlib.CBMC_EXTRA + " --unwindset " + us + " --verbosity 8"
t0 = time.time()
rc, out, wall = vlib.sh(cmd, cwd=cdir, timeout=tmo + 300)
open(f"/tmp/prof_full_{h}.log","w").write(out)
keep = re.findall(r"^(Runtime Symex.*|size of program.*|\d+ variables.*|Runtime Convert SSA.*|VERIFICATION.*|Verification Time.*|.*TIMEOUT.*|Failed Checks.*|.*unwinding assertion.*FAIL.*)$", out, re.M)
seen = []
for k in keep:
    if k not in seen:
        seen.append(k)
print("\n".join(seen[:25]))
print(f"rc={rc} wall={time.time()-t0:.0f}s loops={len(ent)}")
