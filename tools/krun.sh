#!/bin/bash
# usage: krun.sh <crate-dir> <slot> <timeout_s> <harness> [extra cargo-kani args...]
# Runs one Kani harness under a memory + time cap with its own target dir.
set -u
CRATE=$1; SLOT=$2; TMO=$3; H=$4; shift 4
cd "$CRATE" || exit 3
ulimit -v $((24*1024*1024))
export CARGO_NET_OFFLINE=true
exec timeout -k 5 "$TMO" cargo kani -Z stubbing --target-dir /verif/.cache/t$SLOT --harness "$H" "$@"
