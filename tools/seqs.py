"""Enumeration of the operation-shape harnesses of the shadow-log crate (shared by kani/shadow/gen.py, which emits one
#[kani::proof] per entry, and tools/registry.py, which registers them).

A harness = optional CONCRETE prefix (a leader append of fixed entries: folds completely during symbolic execution)
followed by ONE operation whose shape (kind + number of entries) is fixed and whose values are symbolic.
Measured (DESIGN.md section 2c): a second symbolic operation -- or one conflict-append of >= 1 entries onto a
non-empty log -- exceeds 28 GB / 900 s, so those are not generated."""
NB = 4   # log indexes 1..=NB
TB = 3   # terms 1..=TB
SHAPES = {"a1": "A1", "a2": "A2", "f0": "F0", "f1": "F1", "f2": "F2", "f3": "F3", "pu": "PU", "rs": "RS"}
FROM_EMPTY = ["a1", "a2", "f0", "f1", "f2", "f3", "pu", "rs"]
# concrete prefixes (terms of entries 1..) x symbolic operations that finish on them
PREFIXES = {"c12": [1, 2], "c112": [1, 1, 2]}
ON_PREFIX = ["a1", "f0"]


def all_harnesses():
    """-> list of dict(name, prefix_terms|None, shape, tier)"""
    res = []
    for s in FROM_EMPTY:
        res.append({"name": f"c19_empty_{s}", "prefix": None, "shape": s, "tier": "quick"})
    for pn, terms in PREFIXES.items():
        for s in ON_PREFIX:
            res.append({"name": f"c19_{pn}_{s}", "prefix": terms, "shape": s, "tier": "thorough"})
    return res
