#!/usr/bin/env python3
"""Generate /verif/MANIFEST.json from tools/registry.py (claimed properties) + tools/not_applicable.py."""
import json
import os
import subprocess
import sys

HERE = os.path.dirname(os.path.abspath(__file__))
sys.path.insert(0, HERE)
from registry import PROPS  # noqa: E402
from not_applicable import NOT_APPLICABLE, LEVEL_NOTES  # noqa: E402

VERIF = os.path.dirname(HERE)
ids = [json.loads(l)["id"] for l in open(os.path.join(VERIF, "properties.jsonl"))]

checks = []
for pid in ids:
    if pid not in PROPS:
        continue
    P = PROPS[pid]
    has_thorough = any(h.get("tier") == "thorough" for h in P["harnesses"])
    crates = sorted(set(h.get("crate", "core") for h in P["harnesses"]))
    eng = "kani-cbmc-shadow" if crates == ["shadow"] else "kani-cbmc"
    tech = "solver-based bounded model checking of the real Rust code (Kani 0.68 -> CBMC 6.11 -> CaDiCaL), counterexamples replayed natively"
    if "shadow" in crates:
        tech += ("; harnesses in kani/shadow execute the repository's source TEXT (shadow build of buffered_raft_log.rs / verbatim function slices, regenerated from /repo "
                 "on every run) against bounded models of the containers and channels it uses (DESIGN.md section 2c)")
    c = {
        "property_id": pid,
        "quick_cmd": f"./check {pid} --tier quick",
        "thorough_cmd": f"./check {pid} --tier thorough",
        "evidence_file": f"evidence/{pid}.json",
        "replay_cmd_template": f"./check {pid} --replay {{path}}",
        "engine": eng,
        "level_claimed": {
            "category": "model_checking",
            "text": ("Bounded model checking of the real code: " + P["claim"] +
                     " Every assertion is decided by CBMC/CaDiCaL for ALL inputs inside the bounds recorded per harness in the "
                     "evidence file (unwinding assertions on, vacuity witnesses required); nothing is claimed outside them."),
            "design_ref": f"DESIGN.md section 7 (row {pid}: what is decided as built) and section 4 ({pid}: the design-stage plan)",
        },
        "level_note": LEVEL_NOTES.get(pid, "") + " Trusted: " + "; ".join(P["trusted"]) + ". Outside the claim: " + "; ".join(P["outside"]) + ".",
        "technique": tech,
    }
    if not has_thorough:
        c["thorough_cmd"] = f"./check {pid} --tier thorough"
    checks.append(c)

missing = [p for p in ids if p not in PROPS and p not in NOT_APPLICABLE]
if missing:
    print("properties neither claimed nor listed not-applicable:", missing, file=sys.stderr)
    sys.exit(1)

try:
    commits = subprocess.run(["git", "-C", "/repo", "log", "--format=%h %s", "--grep=^verif hooks"], capture_output=True, text=True).stdout.strip().splitlines()
except Exception:
    commits = []

m = {
    "version": 1,
    "setup_cmd": "./setup.sh",
    "hooks": {
        "guard": "cfg(kani)",
        "enable": "set automatically by `cargo kani` (the harness crates under /verif/kani depend on /repo's crates by path); no flag is needed and ordinary builds never see the hooks",
        "baseline_off_cmd": "cd /repo && cargo nextest run --workspace --no-fail-fast --test-threads 8 --offline || cargo test --workspace --no-fail-fast --offline",
        "source_commits": commits,
        "add_only": True,
    },
    "engines": [
        {"name": "kani-cbmc", "path": "kani/core",
         "serves_properties": [pid for pid in ids if pid in PROPS and any(h.get("crate", "core") == "core" for h in PROPS[pid]["harnesses"])],
         "kind_free_text": "Kani proof harnesses (out-of-tree crate with path deps on /repo) driving the real d-engine functions with symbolic inputs; CBMC bounded model checking decided by CaDiCaL; runner ./check + tools/vlib.py"},
        {"name": "kani-cbmc-shadow", "path": "kani/shadow",
         "serves_properties": [pid for pid in ids if pid in PROPS and any(h.get("crate") == "shadow" for h in PROPS[pid]["harnesses"])],
         "kind_free_text": "Engine S: shadow build of d-engine-core/src/storage/buffered_raft_log.rs -- the file's source text, regenerated from /repo on every run by kani/shadow/gen.py (mechanical rewrites R1-R6 listed there), compiled against bounded models of SkipMap / tokio channels (kani/shadow/src/shim.rs) and executed by the same Kani/CBMC runner"},
    ],
    "checks": checks,
    "notes": "exit 0 = all harnesses verified within their stated bounds; exit 1 = VIOLATION (native replay reproduced); exit 2 = inconclusive (timeout / OOM / vacuous / non-reproducing), never a pass. Known findings: known_findings.json.",
    "not_applicable": [{"property_id": p, "reason": NOT_APPLICABLE[p]} for p in ids if p not in PROPS],
}
json.dump(m, open(os.path.join(VERIF, "MANIFEST.json"), "w"), indent=1)
print(f"MANIFEST.json: {len(checks)} claimed, {len(m['not_applicable'])} not applicable")
