//! Demonstration for the C05 finding: an AppendEntries request that starts at the first log index
//! (prev_log_index = 0, prev_log_term = 0) and AGREES with the follower's log must not delete the
//! follower's entries beyond the request (Raft Figure 2, receiver rule 3: only a conflicting entry
//! and all that follow it are deleted).
use crate::storage::raft_log::RaftLog;
use crate::test_utils::BufferedRaftLogTestContext;
use crate::{FlushPolicy, PersistenceStrategy};
use d_engine_proto::common::{Entry, LogId};

fn e(index: u64, term: u64) -> Entry {
    Entry { index, term, payload: None }
}

#[tokio::test]
async fn c05_agreeing_request_from_index_one_keeps_later_entries() {
    let ctx = BufferedRaftLogTestContext::new(
        PersistenceStrategy::MemFirst,
        FlushPolicy::Batch { idle_flush_interval_ms: 1 },
        "c05_agreeing_request_from_index_one_keeps_later_entries",
    );
    let log = &ctx.raft_log;
    // follower holds [1:t1, 2:t1, 3:t2] (say all three are committed)
    log.append_entries(vec![e(1, 1), e(2, 1), e(3, 2)]).await.unwrap();
    assert_eq!(log.last_log_id(), Some(LogId { index: 3, term: 2 }));

    // the leader restarts replication from index 1 with a (capped) batch that agrees with the follower
    let r = log.filter_out_conflicts_and_append(0, 0, vec![e(1, 1)]).await.unwrap();
    assert_eq!(r, Some(LogId { index: 1, term: 1 }));

    assert_eq!(log.entry_term(1), Some(1));
    assert_eq!(log.entry_term(2), Some(1), "entry 2 agrees with the leader and must be kept");
    assert_eq!(log.entry_term(3), Some(2), "entry 3 agrees with the leader and must be kept");
    assert_eq!(log.last_log_id(), Some(LogId { index: 3, term: 2 }));
}

#[tokio::test]
async fn c05_conflicting_request_from_index_one_replaces_from_the_conflict() {
    let ctx = BufferedRaftLogTestContext::new(
        PersistenceStrategy::MemFirst,
        FlushPolicy::Batch { idle_flush_interval_ms: 1 },
        "c05_conflicting_request_from_index_one_replaces_from_the_conflict",
    );
    let log = &ctx.raft_log;
    log.append_entries(vec![e(1, 1), e(2, 1), e(3, 2)]).await.unwrap();
    // conflict at index 2 (term 3 instead of 1): 2 and 3 are replaced, 1 is kept
    let r = log.filter_out_conflicts_and_append(0, 0, vec![e(1, 1), e(2, 3)]).await.unwrap();
    assert_eq!(r, Some(LogId { index: 2, term: 3 }));
    assert_eq!(log.entry_term(1), Some(1));
    assert_eq!(log.entry_term(2), Some(3));
    assert_eq!(log.entry_term(3), None);
    assert_eq!(log.last_log_id(), Some(LogId { index: 2, term: 3 }));
}

#[tokio::test]
async fn c05_request_from_index_one_on_empty_log_appends_everything() {
    let ctx = BufferedRaftLogTestContext::new(
        PersistenceStrategy::MemFirst,
        FlushPolicy::Batch { idle_flush_interval_ms: 1 },
        "c05_request_from_index_one_on_empty_log_appends_everything",
    );
    let log = &ctx.raft_log;
    let r = log.filter_out_conflicts_and_append(0, 0, vec![e(1, 1), e(2, 1)]).await.unwrap();
    assert_eq!(r, Some(LogId { index: 2, term: 1 }));
    assert_eq!(log.first_entry_id(), 1);
    assert_eq!(log.last_log_id(), Some(LogId { index: 2, term: 1 }));
}
