//! Demonstration for the C19 finding: after more term changes than MAX_TERM_SEGMENTS (1024) in one log,
//! entry_term() for an index below the current term's first entry must still answer like a plain log.
use crate::storage::raft_log::RaftLog;
use crate::test_utils::BufferedRaftLogTestContext;
use crate::{FlushPolicy, PersistenceStrategy};
use d_engine_proto::common::Entry;

#[tokio::test]
async fn c19_entry_term_after_more_than_1024_term_changes() {
    let ctx = BufferedRaftLogTestContext::new(
        PersistenceStrategy::MemFirst,
        FlushPolicy::Batch { idle_flush_interval_ms: 1 },
        "c19_entry_term_after_more_than_1024_term_changes",
    );
    let log = &ctx.raft_log;
    // one entry per term, terms 1..=1030 (e.g. the no-op entry of 1030 successive leaders)
    let entries: Vec<Entry> = (1..=1030u64).map(|i| Entry { index: i, term: i, payload: None }).collect();
    log.append_entries(entries).await.unwrap();
    for i in [1u64, 2, 500, 1023, 1024, 1025, 1026, 1029, 1030] {
        assert_eq!(log.entry_term(i), Some(i), "entry_term({i})");
    }
}
