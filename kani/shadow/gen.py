#!/usr/bin/env python3
"""Regenerate the shadow build of d-engine-core/src/storage/buffered_raft_log.rs from /repo's CURRENT working tree
(run by /verif/check before every Kani run of this crate).

The file is copied verbatim except for these mechanical rewrites (each must match exactly the expected number of
times, otherwise the source changed shape and the check is INCONCLUSIVE rather than silently stale):

  R1  the `use` lines importing crate::*, async_trait, crossbeam_skiplist::SkipMap, d_engine_proto::common::{Entry,LogId},
      tokio::sync::{Notify,mpsc,oneshot}, tracing::{debug,error,warn} and std::collections::HashMap are replaced by one
      `use crate::shim::*;` (bounded models, see src/shim.rs)
  R2  inline paths `crate::X` -> `crate::shim::X`
  R3  `const MAX_TERM_SEGMENTS: usize = 1024;` -> `= crate::shim_consts::MAX_TERM_SEGMENTS;` (bound, stated in the evidence)
  R4  `#[async_trait] impl<T> RaftLog for BufferedRaftLog<T>` -> inherent `impl<T> BufferedRaftLog<T>` (same bodies;
      native `async fn` instead of boxed futures)
  R5  the harness module is appended as a child module (so that it sees private fields and methods)
  R6  de-sugaring of the caller-side async functions (append_entries, insert_batch, filter_out_conflicts_and_append,
      purge_logs_up_to, flush, reset, reset_internal): `async fn` -> `fn`, `.await` -> `.shim_now()`.  `shim_now` is the
      identity on plain values and, on a oneshot receiver, takes the reply that the model IO thread has already
      sent (it panics -- fails the harness -- if the reply is not there).  Statement order and every other token are
      unchanged; what is modelled away is suspension: the IO thread is infinitely fast (shim::mpsc::IO_AUTO_ACK).
      Reason: Kani encodes a coroutine as a union of per-state structs; a future stored inside another future
      loses constant propagation and one nested `append_entries(..).await` costs 3.6M SAT variables instead of 0.3M.
      The IO-thread side (batch_processor, handle_non_write_cmd, close) keeps its async form.
  R7  test-only helper methods are compiled out (see below)
"""
import hashlib, json, os, re, sys
REPO = os.environ.get("VERIF_REPO", "/repo")
HERE = os.path.dirname(os.path.abspath(__file__))
REL = "d-engine-core/src/storage/buffered_raft_log.rs"
src = open(os.path.join(REPO, REL)).read()
sha = hashlib.sha256(src.encode()).hexdigest()

def fail(msg):
    print(json.dumps({"error": msg}))
    sys.exit(3)

lines = src.split("\n")
out, removed, first = [], 0, True
DROP = re.compile(r"^use (crate::[\w:]+|async_trait::async_trait|crossbeam_skiplist::SkipMap|d_engine_proto::common::(Entry|LogId)|tokio::sync::(Notify|mpsc|oneshot)|tracing::(debug|error|warn|info|trace)|std::collections::HashMap);\s*$")
for l in lines:
    if DROP.match(l):
        removed += 1
        if first:
            out.append("use crate::shim::*;")
            first = False
        continue
    if l.startswith("use ") and not re.match(r"^use std::", l):
        fail(f"unexpected import in {REL}: {l!r} (shim does not model it)")
    out.append(l)
if removed < 10:
    fail(f"R1 matched only {removed} import lines")
txt = "\n".join(out)
txt, n2 = re.subn(r"\bcrate::(?!shim\b)(\w+)", r"crate::shim::\1", txt)
txt = txt.replace("use crate::shim::shim::*;", "use crate::shim::*;")
txt, n3 = re.subn(r"const MAX_TERM_SEGMENTS: usize = \d+;", "const MAX_TERM_SEGMENTS: usize = crate::shim_consts::MAX_TERM_SEGMENTS;", txt)
if n3 != 1:
    fail("R3 (MAX_TERM_SEGMENTS) did not match exactly once")
txt, n4 = re.subn(r"#\[async_trait\]\s*\nimpl<T> RaftLog for BufferedRaftLog<T>", "impl<T> BufferedRaftLog<T>", txt)
if n4 != 1:
    fail("R4 (RaftLog impl header) did not match exactly once")
if "async_trait" in txt:
    fail("async_trait still referenced after R4")
# R7: test-only helper methods (`#[cfg(test)]` / `#[cfg(any(test, feature = "__test_support"))]`: len, is_empty, next_id) are
# compiled out -- the native replay builds with cfg(test) and the helpers would clash with the trait methods that
# R4 turned into inherent ones.
txt, n7 = re.subn(r"#\[cfg\((test|any\(test, feature = \"__test_support\"\))\)\]", "#[cfg(any())]", txt)
SYNC_FNS = ["append_entries", "insert_batch", "filter_out_conflicts_and_append", "purge_logs_up_to", "flush", "reset", "reset_internal"]
n6 = {}
for name in SYNC_FNS:
    m = re.search(r"\basync fn " + name + r"\s*\(", txt)
    if not m:
        fail(f"R6: async fn {name} not found")
    i = txt.index("{", m.end())
    # skip a possible `-> Result<..>` containing no braces; find the body by brace matching
    depth, j = 0, i
    while True:
        c = txt[j]
        if c == "{":
            depth += 1
        elif c == "}":
            depth -= 1
            if depth == 0:
                break
        j += 1
    body = txt[i:j + 1]
    body2, k = re.subn(r"\.await\b", ".shim_now()", body)
    if "async" in body2:
        fail(f"R6: nested async block inside {name}")
    txt = txt[:m.start()] + "fn " + name + "(" + txt[m.end():i] + body2 + txt[j + 1:]
    n6[name] = k
txt = ("// GENERATED by gen.py from /repo/" + REL + " (sha256 " + sha + ") -- do not edit\n"
       "#![allow(dead_code, unused_variables, unused_imports, unused_mut, clippy::all)]\n" + txt +
       "\n#[cfg(kani)]\n#[path = \"h_brl.rs\"]\npub mod h;\n")
dst = os.path.join(HERE, "src", "gen_brl.rs")
if not os.path.exists(dst) or open(dst).read() != txt:
    open(dst, "w").write(txt)
# ---- harness wrappers: one #[kani::proof] per operation-shape sequence (tools/seqs.py)
sys.path.insert(0, os.path.join(HERE, "..", "..", "tools"))
import seqs
hs = ["// GENERATED by gen.py from tools/seqs.py -- one proof harness per (concrete prefix, operation shape)\n"]
for hd in seqs.all_harnesses():
    pre = ""
    if hd["prefix"]:
        pre = f"    c_append(&log, &mut p, 1, &{hd['prefix']});\n"
    hs.append(f"#[kani::proof]\n#[kani::unwind(2)]\npub fn {hd['name']}() {{\n    let (log, rx, mut p) = fresh_b({seqs.NB}, {seqs.TB});\n{pre}"
              f"    apply(&log, &mut p, {seqs.SHAPES[hd['shape']]});\n"
              f"    kani::cover!(true, \"operation_feasible\");\n    std::mem::forget(log);\n    std::mem::forget(rx);\n}}\n")
seq_txt = "".join(hs)
dst2 = os.path.join(HERE, "src", "gen_seq.rs")
if not os.path.exists(dst2) or open(dst2).read() != seq_txt:
    open(dst2, "w").write(seq_txt)
# ---- function slice: LeaderState::calculate_new_commit_index (verbatim) + NodeRole discriminants from the generated proto
LS = "d-engine-core/src/raft_role/leader_state.rs"
lsrc = open(os.path.join(REPO, LS)).read()
m = re.search(r"^    fn calculate_new_commit_index\(", lsrc, re.M)
if not m:
    fail("slice: fn calculate_new_commit_index not found in " + LS)
i = lsrc.index("{", m.start())
depth, j = 0, i
while True:
    c = lsrc[j]
    if c == "{":
        depth += 1
    elif c == "}":
        depth -= 1
        if depth == 0:
            break
    j += 1
fn_txt = lsrc[m.start():j + 1]
PR = "d-engine-proto/src/generated/d_engine.common.rs"
psrc = open(os.path.join(REPO, PR)).read()
m2 = re.search(r"pub enum NodeRole \{([^}]*)\}", psrc)
if not m2:
    fail("slice: enum NodeRole not found in " + PR)
leader_txt = ("// GENERATED by gen.py -- verbatim slice of " + LS + " (fn calculate_new_commit_index) + NodeRole from " + PR + "\n"
              "#![allow(dead_code, unused_variables, clippy::all)]\nuse crate::lshim::*;\n"
              "pub mod d_engine_proto {\n    pub mod common {\n        #[derive(Clone, Copy, Debug, PartialEq, Eq)]\n        #[repr(i32)]\n        pub enum NodeRole {" + m2.group(1) + "}\n    }\n}\n"
              "impl<T: LCfg> LeaderSlice<T> {\n" + fn_txt + "\n}\n#[cfg(kani)]\n#[path = \"h_leader.rs\"]\npub mod h;\n")
dst3 = os.path.join(HERE, "src", "gen_leader.rs")
if not os.path.exists(dst3) or open(dst3).read() != leader_txt:
    open(dst3, "w").write(leader_txt)
leader_sha = hashlib.sha256(fn_txt.encode()).hexdigest()
# ---- function slice: ReplicationHandler::retrieve_to_be_synced_logs_for_peers (verbatim)
RH = "d-engine-core/src/replication/replication_handler.rs"
rsrc = open(os.path.join(REPO, RH)).read()
m = re.search(r"^    fn retrieve_to_be_synced_logs_for_peers\(", rsrc, re.M)
if not m:
    fail("slice: fn retrieve_to_be_synced_logs_for_peers not found in " + RH)
i = rsrc.index("{", rsrc.index(")", m.start()))
depth, j = 0, i
while True:
    c = rsrc[j]
    if c == "{":
        depth += 1
    elif c == "}":
        depth -= 1
        if depth == 0:
            break
    j += 1
rfn_txt = rsrc[m.start():j + 1]
repl_txt = ("// GENERATED by gen.py -- verbatim slice of " + RH + " (fn retrieve_to_be_synced_logs_for_peers)\n"
            "#![allow(dead_code, unused_variables, unused_mut, clippy::all)]\nuse crate::rshim::*;\n"
            "impl<T: RCfg> ReplSlice<T> {\n" + rfn_txt + "\n}\n#[cfg(kani)]\n#[path = \"h_repl.rs\"]\npub mod h;\n")
dst4 = os.path.join(HERE, "src", "gen_repl.rs")
if not os.path.exists(dst4) or open(dst4).read() != repl_txt:
    open(dst4, "w").write(repl_txt)
repl_sha = hashlib.sha256(rfn_txt.encode()).hexdigest()
# ---- function slices: follower-side AppendEntries handling (three methods) + d-engine-proto's impl AppendEntriesResponse
def cut_block(src, start, what):
    i = src.index("{", start)
    depth, j = 0, i
    while True:
        c = src[j]
        if c == "{":
            depth += 1
        elif c == "}":
            depth -= 1
            if depth == 0:
                break
        j += 1
    return src[start:j + 1]
ftxts = []
for nm in ("handle_append_entries", "if_update_commit_index_as_follower", "check_append_entries_request_is_legal"):
    m = re.search(r"^    (async )?fn " + nm + r"\(", rsrc, re.M)
    if not m:
        fail("slice: fn " + nm + " not found in " + RH)
    # the body starts at the first `{` after the parameter list's closing `)` at indentation 4
    close = re.search(r"^    \)", rsrc[m.start():], re.M)
    t = cut_block(rsrc, m.start(), nm) if not close else rsrc[m.start():m.start() + close.start()] + cut_block(rsrc, m.start() + close.start(), nm)
    if nm == "handle_append_entries":
        if not t.lstrip().startswith("async fn"):
            fail("slice: handle_append_entries is no longer async")
        t = t.replace("async fn", "fn", 1)
        t, k = re.subn(r"\.await\b", ".shim_now()", t)
        if k != 1:
            fail(f"slice: handle_append_entries has {k} awaits (expected 1)")
    ftxts.append(t)
PX = "d-engine-proto/src/exts/replication_ext.rs"
xsrc = open(os.path.join(REPO, PX)).read()
m = re.search(r"^impl AppendEntriesResponse \{", xsrc, re.M)
if not m:
    fail("slice: impl AppendEntriesResponse not found in " + PX)
ximpl = cut_block(xsrc, m.start(), "impl")
foll_txt = ("// GENERATED by gen.py -- verbatim slices of " + RH + " (handle_append_entries [async de-sugared as R6], if_update_commit_index_as_follower,\n"
            "// check_append_entries_request_is_legal) and of " + PX + " (impl AppendEntriesResponse)\n"
            "#![allow(dead_code, unused_variables, unused_mut, clippy::all)]\nuse crate::fshim::*;\n" + ximpl + "\n"
            "impl<T: FCfg> FollowerSlice<T> {\n" + "\n\n".join(ftxts) + "\n}\n#[cfg(kani)]\n#[path = \"h_follower.rs\"]\npub mod h;\n")
dst5 = os.path.join(HERE, "src", "gen_follower.rs")
if not os.path.exists(dst5) or open(dst5).read() != foll_txt:
    open(dst5, "w").write(foll_txt)
foll_sha = hashlib.sha256(("\n".join(ftxts) + ximpl).encode()).hexdigest()
# ---- function slices: the leader's client-write response bookkeeping (three methods of LeaderState)
ctxts = []
for nm in ("drain_pending_client_writes", "handle_apply_completed", "drain_pending_writes_with_error"):
    m = re.search(r"^    (async )?fn " + nm + r"\(", lsrc, re.M)
    if not m:
        fail("slice: fn " + nm + " not found in " + LS)
    close = re.search(r"^    \)", lsrc[m.start():], re.M)
    t = lsrc[m.start():m.start() + close.start()] + cut_block(lsrc, m.start() + close.start(), nm)
    if nm == "handle_apply_completed":
        if ".await" in t:
            fail("slice: handle_apply_completed now awaits something (expected none)")
        t = t.replace("async fn", "fn", 1)
    t = re.sub(r"\bcrate::ApplyResult\b", "ApplyResult", t)
    t = re.sub(r"\bstd::mem::take\b", "std::mem::take", t)
    ctxts.append(t)
client_txt = ("// GENERATED by gen.py -- verbatim slices of " + LS + " (drain_pending_client_writes, handle_apply_completed [async without awaits: de-sugared],\n"
              "// drain_pending_writes_with_error); `crate::ApplyResult` -> shim ApplyResult\n"
              "#![allow(dead_code, unused_variables, unused_mut, clippy::all)]\nuse crate::cshim::*;\n"
              "impl<T> ClientSlice<T> {\n" + "\n\n".join(ctxts) + "\n}\n#[cfg(kani)]\n#[path = \"h_client.rs\"]\npub mod h;\n")
dst6 = os.path.join(HERE, "src", "gen_client.rs")
if not os.path.exists(dst6) or open(dst6).read() != client_txt:
    open(dst6, "w").write(client_txt)
client_sha = hashlib.sha256("\n".join(ctxts).encode()).hexdigest()
# ---- function slice: Raft::merge_append_entries
RF = "d-engine-core/src/raft.rs"
fsrc = open(os.path.join(REPO, RF)).read()
m = re.search(r"^    fn merge_append_entries\(&mut self\) \{", fsrc, re.M)
if not m:
    fail("slice: fn merge_append_entries not found in " + RF)
mfn = cut_block(fsrc, m.start(), "merge")
merge_txt = ("// GENERATED by gen.py -- verbatim slice of " + RF + " (fn merge_append_entries)\n"
             "#![allow(dead_code, unused_variables, unused_mut, clippy::all)]\nuse crate::mshim::*;\n"
             "impl MergeSlice {\n" + mfn + "\n}\n#[cfg(kani)]\n#[path = \"h_merge.rs\"]\npub mod h;\n")
dst7 = os.path.join(HERE, "src", "gen_merge.rs")
if not os.path.exists(dst7) or open(dst7).read() != merge_txt:
    open(dst7, "w").write(merge_txt)
merge_sha = hashlib.sha256(mfn.encode()).hexdigest()
print(json.dumps({"calculate_new_commit_index_sha256": leader_sha, "retrieve_to_be_synced_logs_for_peers_sha256": repl_sha, "follower_append_slices_sha256": foll_sha, "client_response_slices_sha256": client_sha, "merge_append_entries_sha256": merge_sha, "buffered_raft_log_sha256": sha, "rewrites": {"R1_imports": removed, "R2_paths": n2, "R3": n3, "R4": n4, "R6_awaits": n6, "R7_test_helpers": n7}}))
