//! Environment of the function slice `Raft::merge_append_entries` (gen_merge.rs).
#![allow(dead_code, clippy::all)]
pub use crate::fshim::AppendEntriesRequest;
pub use crate::shim::Entry;

pub const DQ: usize = 4;
/// what a queued event is: an AppendEntries request with the senders waiting for its response, or anything else
pub enum InboundEvent {
    AppendEntries(AppendEntriesRequest, Vec<u8>),
    Other(u8),
}
/// array model of std::collections::VecDeque (front = position 0)
pub struct VecDeque<T> {
    pub slots: [Option<T>; DQ],
    pub n: usize,
}
impl<T> VecDeque<T> {
    pub fn new() -> Self {
        VecDeque { slots: [None, None, None, None], n: 0 }
    }
    pub fn len(&self) -> usize {
        self.n
    }
    pub fn push_back(&mut self, v: T) {
        if self.n >= DQ {
            panic!("shim capacity: VecDeque model holds at most DQ events");
        }
        let n = self.n;
        self.slots[n] = Some(v);
        self.n += 1;
    }
    pub fn pop_front(&mut self) -> Option<T> {
        if self.n == 0 {
            return None;
        }
        let v = self.slots[0].take();
        let mut i = 1;
        while i < DQ {
            self.slots[i - 1] = self.slots[i].take();
            i += 1;
        }
        self.n -= 1;
        v
    }
    pub fn push_front(&mut self, v: T) {
        if self.n >= DQ {
            panic!("shim capacity: VecDeque model holds at most DQ events");
        }
        let mut i = DQ - 1;
        while i > 0 {
            self.slots[i] = self.slots[i - 1].take();
            i -= 1;
        }
        self.slots[0] = Some(v);
        self.n += 1;
    }
}
pub struct Batching {
    pub max_merge_entries: usize,
}
pub struct RaftCfg {
    pub batching: Batching,
}
pub struct NodeConfig {
    pub raft: RaftCfg,
}
pub struct Ctx {
    pub node_config: NodeConfig,
}
pub struct MergeSlice {
    pub buffered_inbound_event: VecDeque<InboundEvent>,
    pub ctx: Ctx,
}
