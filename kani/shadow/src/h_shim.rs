//! micro harnesses measuring the shim models themselves
use crate::shim::*;
use std::sync::atomic::{AtomicU64, Ordering};

#[kani::proof]
#[kani::unwind(2)]
fn m_skipmap_atomic_two_symbolic_keys() {
    let m: SkipMap<u64, AtomicU64> = SkipMap::new();
    let k1: u64 = kani::any();
    let k2: u64 = kani::any();
    kani::assume(k1 >= 1 && k1 <= 4 && k2 >= k1 && k2 <= 4);
    m.get_or_insert(k1, AtomicU64::new(u64::MAX)).value().fetch_min(1, Ordering::AcqRel);
    m.get_or_insert(k2, AtomicU64::new(u64::MAX)).value().fetch_min(2, Ordering::AcqRel);
    kani::cover!(k1 == k2, "same");
    let v = m.get(&k1).map(|e| e.value().load(Ordering::Acquire));
    assert!(v == Some(1));
    std::mem::forget(m);
}

#[inline(never)]
fn expensive(x: u64) -> u64 {
    let mut a = [0u64; 16];
    let mut i = 0;
    while i < 16 {
        a[(x as usize + i) % 16] = x.wrapping_mul(i as u64 + 3);
        i += 1;
    }
    a[(x % 16) as usize]
}
#[kani::proof]
#[kani::unwind(2)]
fn m_heap_roundtrip_identity() {
    let t: u64 = kani::any();
    let v = vec![Entry { index: 1, term: t, payload: 0 }, Entry { index: 2, term: t, payload: 0 }];
    let mut r = 0;
    if v[0].term != v[1].term {
        r = expensive(t);
    }
    kani::cover!(true, "reached");
    assert!(r == 0);
    std::mem::forget(v);
}
#[kani::proof]
#[kani::unwind(2)]
fn m_stack_roundtrip_identity() {
    let t: u64 = kani::any();
    let v = [Entry { index: 1, term: t, payload: 0 }, Entry { index: 2, term: t, payload: 0 }];
    let mut r = 0;
    if v[0].term != v[1].term {
        r = expensive(t);
    }
    kani::cover!(true, "reached");
    assert!(r == 0);
}

#[kani::proof]
#[kani::unwind(2)]
fn m_trivial_identity() {
    let t: u64 = kani::any();
    let u = t;
    let mut r = 0;
    if u != t {
        r = expensive(t);
    }
    kani::cover!(true, "reached");
    assert!(r == 0);
}
#[kani::proof]
#[kani::unwind(2)]
fn m_no_branch() {
    let t: u64 = kani::any();
    let r = 0;
    kani::cover!(t == 1, "reached");
    assert!(r == 0);
}

#[kani::proof]
#[kani::unwind(2)]
fn m_scalar_array_identity() {
    let t: u64 = kani::any();
    let v = [t, t];
    let mut r = 0;
    if v[0] != v[1] {
        r = expensive(t);
    }
    kani::cover!(true, "reached");
    assert!(r == 0);
}
struct Two {
    a: u64,
    b: u64,
}
#[kani::proof]
#[kani::unwind(2)]
fn m_struct_identity() {
    let t: u64 = kani::any();
    let v = Two { a: t, b: t };
    let mut r = 0;
    if v.a != v.b {
        r = expensive(t);
    }
    kani::cover!(true, "reached");
    assert!(r == 0);
}
#[kani::proof]
#[kani::unwind(2)]
fn m_struct_array_written_identity() {
    let t: u64 = kani::any();
    let mut v = [Two { a: 0, b: 0 }, Two { a: 0, b: 0 }];
    v[0].a = t;
    v[1].a = t;
    let mut r = 0;
    if v[0].a != v[1].a {
        r = expensive(t);
    }
    kani::cover!(true, "reached");
    assert!(r == 0);
}
