//! C07: the follower's AppendEntries handling -- wiring of the legality check, the conflict-aware append and the commit rule.
use super::*;
use crate::shim::SCell;

fn follower_step(nentries: usize) {
    let terms: [u64; 3] = kani::any();
    let len: u64 = kani::any();
    kani::assume(len <= 3 && terms[0] >= 1 && terms[0] <= terms[1] && terms[1] <= terms[2]);
    let after_len: u64 = kani::any();
    let foca_answer: Option<LogId> = if kani::any() { Some(LogId { term: kani::any(), index: kani::any() }) } else { None };
    let log = Arc::new(FLogModel {
        len: SCell::new(len),
        terms,
        foca_calls: SCell::new(0),
        foca_prev: SCell::new((0, 0)),
        foca_n: SCell::new(0),
        foca_first_index: SCell::new(0),
        after_len,
        foca_answer,
    });
    let before_last = log.last_log_id();
    let req_term: u64 = kani::any();
    let prev_i: u64 = kani::any();
    let prev_t: u64 = kani::any();
    let leader_commit: u64 = kani::any();
    let et: u64 = kani::any();
    kani::assume(prev_i < u64::MAX - 4);
    let entries = crate::h_vec3(nentries, |k| Entry { index: prev_i + 1 + k as u64, term: et, payload: 0 });
    let req = AppendEntriesRequest { term: req_term, leader_id: 2, prev_log_index: prev_i, prev_log_term: prev_t, entries, leader_commit_index: leader_commit };
    let my_term: u64 = kani::any();
    let my_commit: u64 = kani::any();
    let snap = StateSnapshot { role: 1, current_term: my_term, commit_index: my_commit };
    let h = FollowerSlice::<FT> { my_id: 1, _t: std::marker::PhantomData };
    let out = match h.handle_append_entries(req, &snap, &log) {
        Ok(o) => o,
        Err(_) => panic!("C07:handle_append_entries_failed"),
    };
    let rejected = out.response.is_conflict() || out.response.is_higher_term();
    // what Raft's receiver rules 1-2 say about this request
    let stale = my_term > req_term;
    let prev_ok = (prev_i == 0 && prev_t == 0) || (prev_i >= 1 && prev_i <= len && terms[(prev_i - 1) as usize] == prev_t);
    kani::cover!(rejected && stale, "stale_term_rejected");
    kani::cover!(rejected && !stale, "log_mismatch_rejected");
    kani::cover!(!rejected && out.commit_index_update.is_some(), "accepted_and_commit_advances");
    kani::cover!(!rejected && out.commit_index_update.is_none(), "accepted_without_commit_change");
    // SAFETY direction only (rejecting more than necessary would be a liveness matter, not C07's): a request from a
    // stale leader or with a non-matching prev entry must never be accepted
    if !rejected {
        assert!(!stale && prev_ok, "C07:request_accepted_against_the_consistency_check");
    }
    assert!(out.response.is_success() != rejected, "C07:response_kind_inconsistent");
    if rejected {
        assert!(out.commit_index_update.is_none(), "C07:commit_index_changed_by_a_rejected_request");
        assert!(*log.foca_calls.r() == 0, "C07:log_modified_by_a_rejected_request");
    } else {
        // the log is touched exactly when the request carries entries, with the request's own prev and entries
        if nentries == 0 {
            assert!(*log.foca_calls.r() == 0, "C07:empty_request_modified_the_log");
        } else {
            kani::cover!(*log.foca_calls.r() != 1, "witness:C07:entries_not_appended_exactly_once");
            assert!(*log.foca_calls.r() == 1, "C07:entries_not_appended_exactly_once");
            assert!(*log.foca_prev.r() == (prev_i, prev_t) && *log.foca_n.r() == nentries && *log.foca_first_index.r() == prev_i + 1,
                    "C07:append_called_with_other_arguments_than_the_request");
        }
        // commit rule: only forward, never beyond the leader's commit index nor beyond the follower's own last entry
        let last_now = if nentries == 0 { len } else { after_len };
        match out.commit_index_update {
            Some(c) => {
                assert!(leader_commit > my_commit, "C07:commit_index_updated_without_leader_progress");
                assert!(c <= leader_commit && c <= last_now, "C07:commit_index_beyond_leader_commit_or_own_log");
            }
            None => {}
        }
        // the acknowledgement carries what the append returned (or the unchanged last id for an empty request)
        match out.response.result {
            Some(append_entries_response::Result::Success(s)) => {
                let want = if nentries == 0 { before_last } else { foca_answer };
                assert!(s.last_match == want, "C07:acknowledged_match_is_not_the_append_result");
            }
            _ => panic!("C07:response_kind_inconsistent"),
        }
    }
    std::mem::forget(log);
}
#[kani::proof]
#[kani::unwind(2)]
pub fn c07_follower_step_heartbeat() {
    follower_step(0)
}
#[kani::proof]
#[kani::unwind(2)]
pub fn c07_follower_step_one_entry() {
    follower_step(1)
}
#[kani::proof]
#[kani::unwind(2)]
pub fn c07_follower_step_two_entries() {
    follower_step(2)
}
