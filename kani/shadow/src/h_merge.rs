//! C36: the follower-side merge of queued AppendEntries requests.
use super::*;

/// Queue: request A (na entries), request B (nb entries), then a marker event.  Everything about B is symbolic.
fn merge_two(na: usize, nb: usize) {
    let term_a: u64 = kani::any();
    let term_b: u64 = kani::any();
    let prev_a: u64 = kani::any();
    let prev_b: u64 = kani::any();
    let ca: u64 = kani::any();
    let cb: u64 = kani::any();
    let max: usize = kani::any();
    kani::assume(prev_a < 1000 && prev_b < 1000 && max <= 8);
    let ea = crate::h_vec3(na, |k| Entry { index: prev_a + 1 + k as u64, term: term_a, payload: 10 + k as u8 });
    let eb = crate::h_vec3(nb, |k| Entry { index: prev_b + 1 + k as u64, term: term_b, payload: 20 + k as u8 });
    let ra = AppendEntriesRequest { term: term_a, leader_id: 2, prev_log_index: prev_a, prev_log_term: 7, entries: ea, leader_commit_index: ca };
    let rb = AppendEntriesRequest { term: term_b, leader_id: 2, prev_log_index: prev_b, prev_log_term: 8, entries: eb, leader_commit_index: cb };
    let mut s = MergeSlice { buffered_inbound_event: VecDeque::new(), ctx: Ctx { node_config: NodeConfig { raft: RaftCfg { batching: Batching { max_merge_entries: max } } } } };
    s.buffered_inbound_event.push_back(InboundEvent::AppendEntries(ra, vec![1u8]));
    s.buffered_inbound_event.push_back(InboundEvent::AppendEntries(rb, vec![2u8]));
    s.buffered_inbound_event.push_back(InboundEvent::Other(9));
    s.merge_append_entries();

    let mergeable = prev_b == prev_a + na as u64 && term_b == term_a && na + nb <= max;
    kani::cover!(mergeable, "requests_merged");
    kani::cover!(!mergeable && prev_b == prev_a + na as u64 && term_b == term_a, "cap_prevents_merge");
    kani::cover!(prev_b != prev_a + na as u64, "gap_prevents_merge");
    let first = s.buffered_inbound_event.pop_front();
    match first {
        Some(InboundEvent::AppendEntries(m, senders)) => {
            // the front request still starts where A started and is from A's term
            assert!(m.prev_log_index == prev_a && m.prev_log_term == 7 && m.term == term_a, "C36:merged_request_lost_its_prev_or_term");
            let merged = m.entries.len() == na + nb && senders.len() == 2;
            let untouched = m.entries.len() == na && senders.len() == 1;
            assert!(merged || untouched, "C36:entries_or_senders_lost_or_duplicated");
            if merged {
                // SAFETY direction: only a request that continues exactly where A ends, in the same term, may be merged
                assert!(prev_b == prev_a + na as u64 && term_b == term_a, "C36:non_contiguous_or_other_term_request_merged");
                assert!(senders[0] == 1 && senders[1] == 2, "C36:merged_sender_lost");
                assert!(m.leader_commit_index >= ca && m.leader_commit_index >= cb && (m.leader_commit_index == ca || m.leader_commit_index == cb),
                        "C36:merged_commit_index_not_the_larger_one");
                let mut k = 0;
                while k < 6 {
                    if k < na {
                        assert!(m.entries[k].index == prev_a + 1 + k as u64 && m.entries[k].payload == 10 + k as u8, "C36:merged_entries_not_the_concatenation");
                    } else if k < na + nb {
                        let j = k - na;
                        assert!(m.entries[k].index == prev_b + 1 + j as u64 && m.entries[k].payload == 20 + j as u8 && m.entries[k].term == term_b,
                                "C36:merged_entries_not_the_concatenation");
                    }
                    k += 1;
                }
                // the marker event follows
                assert!(matches!(s.buffered_inbound_event.pop_front(), Some(InboundEvent::Other(9))), "C36:queue_order_changed");
            } else {
                assert!(m.leader_commit_index == ca, "C36:unmerged_request_modified");
                let mut k = 0;
                while k < 3 {
                    if k < na {
                        assert!(m.entries[k].index == prev_a + 1 + k as u64 && m.entries[k].payload == 10 + k as u8, "C36:unmerged_request_modified");
                    }
                    k += 1;
                }
                // B is still queued, unchanged, before the marker
                match s.buffered_inbound_event.pop_front() {
                    Some(InboundEvent::AppendEntries(b, sb)) => {
                        assert!(b.prev_log_index == prev_b && b.term == term_b && b.leader_commit_index == cb && b.entries.len() == nb && sb.len() == 1 && sb[0] == 2,
                                "C36:unmerged_request_modified");
                        std::mem::forget((b, sb));
                    }
                    _ => panic!("C36:queued_request_lost"),
                }
                assert!(matches!(s.buffered_inbound_event.pop_front(), Some(InboundEvent::Other(9))), "C36:queue_order_changed");
            }
            std::mem::forget((m, senders));
        }
        _ => panic!("C36:front_request_lost"),
    }
    std::mem::forget(s);
}
#[kani::proof]
#[kani::unwind(2)]
pub fn c36_merge_two_requests_1_1() {
    merge_two(1, 1)
}
#[kani::proof]
#[kani::unwind(2)]
pub fn c36_merge_two_requests_2_1() {
    merge_two(2, 1)
}
#[kani::proof]
#[kani::unwind(2)]
pub fn c36_merge_heartbeat_then_entry() {
    merge_two(0, 1)
}
