//! C36: the follower-side merge of queued AppendEntries requests.
use super::*;

/// Queue: request A (na entries), request B (nb entries), then a marker event.  Everything about B is symbolic.
fn merge_two(na: usize, nb: usize) {
    let term_a: u64 = kani::any();
    let term_b: u64 = kani::any();
    let prev_a: u64 = kani::any();
    let prev_b: u64 = kani::any();
    let ca: u64 = kani::any();
    let cb: u64 = kani::any();
    let max: usize = kani::any();
    let pt_a: u64 = kani::any();
    let pt_b: u64 = kani::any();
    kani::assume(prev_a < 1000 && prev_b < 1000 && max <= 8);
    let ea = crate::h_vec3(na, |k| Entry { index: prev_a + 1 + k as u64, term: term_a, payload: 10 + k as u8 });
    let eb = crate::h_vec3(nb, |k| Entry { index: prev_b + 1 + k as u64, term: term_b, payload: 20 + k as u8 });
    let ra = AppendEntriesRequest { term: term_a, leader_id: 2, prev_log_index: prev_a, prev_log_term: pt_a, entries: ea, leader_commit_index: ca };
    let rb = AppendEntriesRequest { term: term_b, leader_id: 2, prev_log_index: prev_b, prev_log_term: pt_b, entries: eb, leader_commit_index: cb };
    let mut s = MergeSlice { buffered_inbound_event: VecDeque::new(), ctx: Ctx { node_config: NodeConfig { raft: RaftCfg { batching: Batching { max_merge_entries: max } } } } };
    s.buffered_inbound_event.push_back(InboundEvent::AppendEntries(ra, vec![1u8]));
    s.buffered_inbound_event.push_back(InboundEvent::AppendEntries(rb, vec![2u8]));
    s.buffered_inbound_event.push_back(InboundEvent::Other(9));
    s.merge_append_entries();

    let mergeable = prev_b == prev_a + na as u64 && term_b == term_a && na + nb <= max;
    kani::cover!(mergeable, "requests_merged");
    kani::cover!(!mergeable && prev_b == prev_a + na as u64 && term_b == term_a, "cap_prevents_merge");
    kani::cover!(prev_b != prev_a + na as u64, "gap_prevents_merge");
    let first = s.buffered_inbound_event.pop_front();
    match first {
        Some(InboundEvent::AppendEntries(m, senders)) => {
            // the front request still starts where A started and is from A's term
            assert!(m.prev_log_index == prev_a && m.prev_log_term == pt_a && m.term == term_a, "C36:merged_request_lost_its_prev_or_term");
            let merged = m.entries.len() == na + nb && senders.len() == 2;
            let untouched = m.entries.len() == na && senders.len() == 1;
            assert!(merged || untouched, "C36:entries_or_senders_lost_or_duplicated");
            if merged {
                // SAFETY direction: only a request that continues exactly where A ends, in the same term, may be merged
                assert!(prev_b == prev_a + na as u64 && term_b == term_a, "C36:non_contiguous_or_other_term_request_merged");
                assert!(senders[0] == 1 && senders[1] == 2, "C36:merged_sender_lost");
                assert!(m.leader_commit_index >= ca && m.leader_commit_index >= cb && (m.leader_commit_index == ca || m.leader_commit_index == cb),
                        "C36:merged_commit_index_not_the_larger_one");
                let mut k = 0;
                while k < 6 {
                    if k < na {
                        assert!(m.entries[k].index == prev_a + 1 + k as u64 && m.entries[k].payload == 10 + k as u8, "C36:merged_entries_not_the_concatenation");
                    } else if k < na + nb {
                        let j = k - na;
                        assert!(m.entries[k].index == prev_b + 1 + j as u64 && m.entries[k].payload == 20 + j as u8 && m.entries[k].term == term_b,
                                "C36:merged_entries_not_the_concatenation");
                    }
                    k += 1;
                }
                // the marker event follows
                assert!(matches!(s.buffered_inbound_event.pop_front(), Some(InboundEvent::Other(9))), "C36:queue_order_changed");
            } else {
                assert!(m.leader_commit_index == ca, "C36:unmerged_request_modified");
                let mut k = 0;
                while k < 3 {
                    if k < na {
                        assert!(m.entries[k].index == prev_a + 1 + k as u64 && m.entries[k].payload == 10 + k as u8, "C36:unmerged_request_modified");
                    }
                    k += 1;
                }
                // B is still queued, unchanged, before the marker
                match s.buffered_inbound_event.pop_front() {
                    Some(InboundEvent::AppendEntries(b, sb)) => {
                        assert!(b.prev_log_index == prev_b && b.term == term_b && b.leader_commit_index == cb && b.entries.len() == nb && sb.len() == 1 && sb[0] == 2,
                                "C36:unmerged_request_modified");
                        std::mem::forget((b, sb));
                    }
                    _ => panic!("C36:queued_request_lost"),
                }
                assert!(matches!(s.buffered_inbound_event.pop_front(), Some(InboundEvent::Other(9))), "C36:queue_order_changed");
            }
            std::mem::forget((m, senders));
        }
        _ => panic!("C36:front_request_lost"),
    }
    std::mem::forget(s);
}
#[kani::proof]
#[kani::unwind(2)]
pub fn c36_merge_two_requests_1_1() {
    merge_two(1, 1)
}
#[kani::proof]
#[kani::unwind(2)]
pub fn c36_merge_two_requests_2_1() {
    merge_two(2, 1)
}
#[kani::proof]
#[kani::unwind(2)]
pub fn c36_merge_heartbeat_then_entry() {
    merge_two(0, 1)
}

/// Three queued one-entry requests A, B, C: whatever gets merged must form a chain (each absorbed request starts where
/// the merged one currently ends, same term) and the merged entries are the concatenation in queue order.
#[kani::proof]
#[kani::unwind(2)]
pub fn c36_merge_three_requests() {
    let term: [u64; 3] = kani::any();
    let prev: [u64; 3] = kani::any();
    let commit: [u64; 3] = kani::any();
    let max: usize = kani::any();
    let pt: [u64; 3] = kani::any();
    kani::assume(prev[0] < 1000 && prev[1] < 1000 && prev[2] < 1000 && max <= 8);
    let mut s = MergeSlice { buffered_inbound_event: VecDeque::new(), ctx: Ctx { node_config: NodeConfig { raft: RaftCfg { batching: Batching { max_merge_entries: max } } } } };
    let mut i = 0;
    while i < 3 {
        let e = vec![Entry { index: prev[i] + 1, term: term[i], payload: 10 * (i as u8 + 1) }];
        let r = AppendEntriesRequest { term: term[i], leader_id: 2, prev_log_index: prev[i], prev_log_term: pt[i], entries: e, leader_commit_index: commit[i] };
        s.buffered_inbound_event.push_back(InboundEvent::AppendEntries(r, vec![i as u8 + 1]));
        i += 1;
    }
    s.merge_append_entries();
    match s.buffered_inbound_event.pop_front() {
        Some(InboundEvent::AppendEntries(m, senders)) => {
            let n = m.entries.len();
            kani::cover!(n == 3, "all_three_merged");
            kani::cover!(n == 2, "two_merged");
            kani::cover!(n == 1, "none_merged");
            assert!(n >= 1 && n <= 3 && senders.len() == n, "C36:entries_or_senders_lost_or_duplicated");
            assert!(m.prev_log_index == prev[0] && m.term == term[0], "C36:merged_request_lost_its_prev_or_term");
            let mut k = 0;
            while k < 3 {
                if k < n {
                    // the k-th merged entry is request k's entry, and request k continued the chain
                    assert!(m.entries[k].payload == 10 * (k as u8 + 1) && senders[k] == k as u8 + 1, "C36:merged_entries_not_the_concatenation");
                    if k > 0 {
                        assert!(prev[k] == prev[0] + k as u64 && term[k] == term[0], "C36:non_contiguous_or_other_term_request_merged");
                        assert!(m.leader_commit_index >= commit[k], "C36:merged_commit_index_not_the_larger_one");
                    }
                }
                k += 1;
            }
            assert!(m.leader_commit_index >= commit[0], "C36:merged_commit_index_not_the_larger_one");
            assert!(s.buffered_inbound_event.len() == 3 - n, "C36:queued_request_lost");
            std::mem::forget((m, senders));
        }
        _ => panic!("C36:front_request_lost"),
    }
    std::mem::forget(s);
}
