//! C08: the entries a leader puts into one AppendEntries request are consecutive and start at the peer's next index.
use super::*;
use crate::shim::SCell;

/// region: 0 = any backlog, 1 = the backlog fits into one request (<= cap), 2 = the backlog exceeds the cap
fn contiguous(nnew: usize, region: u8, maxlast: u64) {
    let last_before: u64 = kani::any();
    let next: u64 = kani::any();
    let cap: u64 = kani::any();
    kani::assume(last_before <= maxlast && next >= 1 && next <= last_before + 1 && cap >= 1 && cap <= 2);
    let exceeds = last_before >= next && last_before - next >= cap;
    match region {
        1 => kani::assume(!exceeds),
        2 => kani::assume(exceeds),
        _ => {}
    }
    let h = ReplSlice::<RT> { my_id: 1, _t: std::marker::PhantomData };
    let mut peers: HashMap<u32, u64> = HashMap::new();
    peers.insert(1, last_before + 1); // self
    peers.insert(2, next);
    let log = Arc::new(RangeLog { last_before, nnew: nnew as u64, asked: SCell::new(0) });
    let t: u64 = 2;
    let new_entries = crate::h_vec3(nnew, |k| Entry { index: last_before + 1 + k as u64, term: t, payload: 1 });
    let out = h.retrieve_to_be_synced_logs_for_peers(&new_entries, last_before, cap, &peers, &log);
    kani::cover!(out.get(&2).is_some(), "peer_gets_entries");
    kani::cover!(exceeds || region == 1, "backlog_exceeds_the_cap_or_region_excludes_it");
    kani::cover!(!exceeds || region == 2, "backlog_within_the_cap_or_region_excludes_it");
    assert!(out.get(&1).is_none(), "C08:leader_sends_entries_to_itself");
    if let Some(es) = out.get(&2) {
        let n = es.len();
        assert!(n >= 1 && n <= 4, "C08:unexpected_request_size");
        let mut k = 0;
        while k < 4 {
            if k < n {
                assert!(es[k].index == next + k as u64, "C08:request_entries_not_contiguous_from_next_index");
            }
            k += 1;
        }
    }
    std::mem::forget(out);
    std::mem::forget(new_entries);
    std::mem::forget(log);
}
#[kani::proof]
#[kani::unwind(2)]
pub fn c08_request_contiguous_no_new_entries() {
    contiguous(0, 0, 4)
}
#[kani::proof]
#[kani::unwind(2)]
pub fn c08_request_contiguous_new_entry_backlog_within_cap() {
    contiguous(1, 1, 4)
}
#[kani::proof]
#[kani::unwind(2)]
pub fn c08_request_contiguous_new_entry_backlog_exceeds_cap() {
    contiguous(1, 2, 4)
}
#[kani::proof]
#[kani::unwind(2)]
pub fn c08_request_contiguous_two_new_entries_backlog_within_cap() {
    contiguous(2, 1, 4)
}
#[kani::proof]
#[kani::unwind(2)]
pub fn c08_request_contiguous_two_new_entries_short_log() {
    contiguous(2, 1, 2)
}
