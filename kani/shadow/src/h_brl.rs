//! Harnesses over the shadow build (child module of the generated file: sees private fields / methods).
use super::*;
use std::future::Future;
use std::mem::ManuallyDrop;

pub const N: usize = 5; // array capacity of the reference log; the per-harness bound is nb() <= N

// ---------------------------------------------------------------------------------------------
// model storage engine (disk side)
// ---------------------------------------------------------------------------------------------
pub struct MT;
impl TypeConfig for MT {
    type SE = MStore;
}
pub struct MStore {
    pub log: Arc<MLogStore>,
    pub meta: Arc<MMeta>,
}
impl StorageEngine for MStore {
    type LogStore = MLogStore;
    type MetaStore = MMeta;
    fn log_store(&self) -> Arc<MLogStore> {
        self.log.clone()
    }
    fn meta_store(&self) -> Arc<MMeta> {
        self.meta.clone()
    }
}
pub struct MMeta;
impl MetaStore for MMeta {
    fn load_hard_state(&self) -> Result<Option<HardState>> {
        Ok(None)
    }
    fn save_hard_state(&self, _hs: &HardState) -> Result<()> {
        Ok(())
    }
    fn flush(&self) -> Result<()> {
        Ok(())
    }
}
/// Disk model: entries 1..=len with the given terms (contiguous), optional purge boundary; counts the IO calls.
pub struct MLogStore {
    pub len: SCell<u64>,
    pub first: SCell<u64>,
    pub terms: SCell<[u64; N + 1]>,
    pub boundary: SCell<Option<LogId>>,
    pub n_replace: SCell<u32>,
    pub n_purge: SCell<u32>,
    pub n_reset: SCell<u32>,
    pub n_persist: SCell<u32>,
}
pub fn pay(index: u64, term: u64) -> u8 {
    (index.wrapping_mul(7).wrapping_add(term.wrapping_mul(13)) & 0xff) as u8
}
pub fn ent(index: u64, term: u64) -> Entry {
    Entry { index, term, payload: pay(index, term) }
}
pub fn vec_exact<T>(n: usize, mut f: impl FnMut(usize) -> T) -> Vec<T> {
    match n {
        0 => Vec::new(),
        1 => vec![f(0)],
        2 => vec![f(0), f(1)],
        3 => vec![f(0), f(1), f(2)],
        4 => vec![f(0), f(1), f(2), f(3)],
        5 => vec![f(0), f(1), f(2), f(3), f(4)],
        _ => panic!("vec_exact: more than 5 elements"),
    }
}
/// Vec with ONE allocation of constant capacity `max` and symbolic length `n <= max` (a Vec whose allocation
/// size is path-dependent makes every later access a multi-object pointer for CBMC).
pub fn vec_sym<T>(max: usize, n: usize, f: impl FnMut(usize) -> T) -> Vec<T> {
    let mut v = vec_exact(max, f);
    assert!(n <= max);
    v.truncate(n);
    v
}
impl MLogStore {
    pub fn empty() -> Self {
        MLogStore {
            len: SCell::new(0),
            first: SCell::new(1),
            terms: SCell::new([0; N + 1]),
            boundary: SCell::new(None),
            n_replace: SCell::new(0),
            n_purge: SCell::new(0),
            n_reset: SCell::new(0),
            n_persist: SCell::new(0),
        }
    }
}
impl LogStore for MLogStore {
    fn last_index(&self) -> u64 {
        *self.len.r()
    }
    fn get_entries(&self, range: std::ops::RangeInclusive<u64>) -> Result<Vec<Entry>> {
        let first = (*self.first.r()).max(*range.start());
        let last = (*self.len.r()).min(*range.end());
        if first > last {
            return Ok(Vec::new());
        }
        let n = (last - first + 1) as usize;
        let t = *self.terms.r();
        Ok(vec_exact(n, |i| ent(first + i as u64, t[(first as usize) + i])))
    }
    fn load_purge_boundary(&self) -> Result<Option<LogId>> {
        Ok(*self.boundary.r())
    }
    fn is_write_durable(&self) -> bool {
        false
    }
    fn flush(&self) -> Result<()> {
        Ok(())
    }
    async fn persist_entries(&self, entries: Vec<Entry>) -> Result<()> {
        *self.n_persist.m() += 1;
        std::mem::forget(entries);
        Ok(())
    }
    async fn replace_range(&self, _truncate_from: u64, new_entries: Vec<Entry>) -> Result<()> {
        *self.n_replace.m() += 1;
        std::mem::forget(new_entries);
        Ok(())
    }
    async fn purge(&self, _cutoff: LogId) -> Result<()> {
        *self.n_purge.m() += 1;
        Ok(())
    }
    async fn reset(&self) -> Result<()> {
        *self.n_reset.m() += 1;
        Ok(())
    }
}

pub type Log = BufferedRaftLog<MT>;

/// The log is kept BY VALUE (a typed stack object): a heap allocation is an untyped byte array for CBMC and every
/// field access into it becomes a byte-level extract/update (measured: 10-20x more variables).
pub fn mk_log(store: MLogStore) -> (Log, mpsc::UnboundedReceiver<IOTask>) {
    let st = Arc::new(MStore { log: Arc::new(store), meta: Arc::new(MMeta) });
    let cfg = PersistenceConfig { strategy: PersistenceStrategy::MemFirst, flush_policy: FlushPolicy::Batch { idle_flush_interval_ms: 10 } };
    *mpsc::IO_AUTO_ACK.m() = true;
    Log::new(1, cfg, st)
}

// ---------------------------------------------------------------------------------------------
// reference: a plain indexed log (term per index, 0 = absent) + the last purge cutoff
// ---------------------------------------------------------------------------------------------
#[derive(Clone, Copy)]
pub struct Plain {
    pub t: [u64; N + 2],
    pub pb: Option<LogId>,
}
impl Plain {
    pub fn new() -> Self {
        Plain { t: [0; N + 2], pb: None }
    }
    pub fn first(&self) -> u64 {
        let mut i = 1;
        while i <= N {
            if self.t[i] != 0 {
                return i as u64;
            }
            i += 1;
        }
        0
    }
    pub fn last(&self) -> u64 {
        let mut i = N;
        while i >= 1 {
            if self.t[i] != 0 {
                return i as u64;
            }
            i -= 1;
        }
        0
    }
    pub fn has(&self, i: u64) -> bool {
        i >= 1 && (i as usize) <= N && self.t[i as usize] != 0
    }
    pub fn entry(&self, i: u64) -> Option<Entry> {
        if self.has(i) { Some(ent(i, self.t[i as usize])) } else { None }
    }
    /// documented rule: term of a present entry, else the purge-boundary term at the boundary index
    pub fn entry_term(&self, i: u64) -> Option<u64> {
        if self.has(i) {
            return Some(self.t[i as usize]);
        }
        match self.pb {
            Some(b) if b.index > 0 && b.index == i => Some(b.term),
            _ => None,
        }
    }
    pub fn last_log_id(&self) -> Option<LogId> {
        let l = self.last();
        if l > 0 {
            return Some(LogId { term: self.t[l as usize], index: l });
        }
        match self.pb {
            Some(b) if b.index > 0 => Some(b),
            _ => None,
        }
    }
    pub fn first_for_term(&self, term: u64) -> Option<u64> {
        let mut i = 1;
        while i <= N {
            if self.t[i] == term && term != 0 {
                return Some(i as u64);
            }
            i += 1;
        }
        None
    }
    pub fn last_for_term(&self, term: u64) -> Option<u64> {
        let mut i = N;
        while i >= 1 {
            if self.t[i] == term && term != 0 {
                return Some(i as u64);
            }
            i -= 1;
        }
        None
    }
    pub fn truncate_from(&mut self, from: u64) {
        let mut i = 1;
        while i <= N {
            if (i as u64) >= from {
                self.t[i] = 0;
            }
            i += 1;
        }
    }
    pub fn purge_upto(&mut self, cutoff: LogId) {
        let mut i = 1;
        while i <= N {
            if (i as u64) <= cutoff.index {
                self.t[i] = 0;
            }
            i += 1;
        }
        self.pb = Some(cutoff);
    }
    pub fn put(&mut self, i: u64, term: u64) {
        self.t[i as usize] = term;
    }
    /// contiguous, terms non-decreasing
    pub fn well_formed(&self) -> bool {
        let f = self.first();
        let l = self.last();
        let mut i = 1;
        let mut prev = 0;
        while i <= N {
            let ii = i as u64;
            if f != 0 && ii >= f && ii <= l {
                if self.t[i] == 0 || self.t[i] < prev {
                    return false;
                }
                prev = self.t[i];
            }
            i += 1;
        }
        true
    }
}

/// A request body: `n` entries prev+1.. with the given terms.
#[derive(Clone, Copy)]
pub struct Req {
    pub prev_i: u64,
    pub prev_t: u64,
    pub n: usize,
    pub terms: [u64; 3],
}
impl Req {
    pub fn entries(&self) -> Vec<Entry> {
        let r = *self;
        vec_sym(3, r.n, |k| ent(r.prev_i + 1 + k as u64, r.terms[k]))
    }
}

/// Conflict-aware append on the plain log: Raft's Figure 2 (AppendEntries receiver rules 2-4) PLUS d-engine's documented
/// rule "prev (0, 0) = start from scratch: reset, then append" -- C19 compares the buffered log with a plain log
/// applying the SAME rules.  Whether that extra rule is safe is a different question: it is not, see the C05
/// harness `c05_scratch_request_keeps_agreeing_entries_*` and DESIGN.md section 8.
/// Returns what the follower reports as its last matching id.
pub fn plain_foca(p: &mut Plain, r: &Req) -> Option<LogId> {
    let last_new = if r.n == 0 { None } else { Some(LogId { term: r.terms[r.n - 1], index: r.prev_i + r.n as u64 }) };
    if r.prev_i == 0 && r.prev_t == 0 {
        p.truncate_from(0);
        let mut k = 0;
        while k < r.n {
            p.put(1 + k as u64, r.terms[k]);
            k += 1;
        }
        return last_new;
    }
    if p.entry_term(r.prev_i) != Some(r.prev_t) {
        return p.last_log_id();
    }
    let mut k = 0;
    while k < r.n {
        let idx = r.prev_i + 1 + k as u64;
        if p.has(idx) && p.t[idx as usize] == r.terms[k] {
            k += 1;
            continue;
        }
        if p.has(idx) {
            p.truncate_from(idx);
        }
        let mut j = k;
        while j < r.n {
            p.put(r.prev_i + 1 + j as u64, r.terms[j]);
            j += 1;
        }
        break;
    }
    last_new
}

/// Inputs a Raft leader can send to a follower whose log is `p` (Log Matching: a request entry that agrees with
/// the follower in (index, term) implies every earlier request entry agrees too; terms never decrease).
pub fn req_is_raft_valid(p: &Plain, r: &Req) -> bool {
    if r.n > 3 || r.prev_i > nb() as u64 || r.prev_i as usize + r.n > nb() {
        return false;
    }
    if r.prev_i == 0 && r.prev_t != 0 {
        return false;
    }
    let mut prev = r.prev_t;
    let mut mismatch_seen = false;
    let mut k = 0;
    while k < 3 {
        if k < r.n {
            if r.terms[k] == 0 || r.terms[k] < prev || r.terms[k] > tb() {
                return false;
            }
            prev = r.terms[k];
            let idx = r.prev_i + 1 + k as u64;
            let agrees = p.has(idx) && p.t[idx as usize] == r.terms[k];
            if agrees && mismatch_seen {
                return false;
            }
            if !agrees {
                mismatch_seen = true;
            }
        }
        k += 1;
    }
    true
}
pub const TMAX: u64 = 4; // capacity; the per-harness bound is tb() <= TMAX
pub static NB: SCell<usize> = SCell::new(4);
pub static TB: SCell<u64> = SCell::new(3);
#[inline(always)]
pub fn nb() -> usize {
    *NB.r()
}
#[inline(always)]
pub fn tb() -> u64 {
    *TB.r()
}

pub fn any_req() -> Req {
    Req { prev_i: kani::any(), prev_t: kani::any(), n: kani::any(), terms: kani::any() }
}

/// Every query of the RaftLog API answered by the buffered log equals the plain log's answer.
pub fn compare(log: &Log, p: &Plain, tag: &'static str) {
    assert!(log.first_entry_id() == p.first(), "C19:first_entry_id");
    assert!(log.last_entry_id() == p.last(), "C19:last_entry_id");
    assert!(log.last_log_id() == p.last_log_id(), "C19:last_log_id");
    assert!(RaftLogQ::is_empty(log) == (p.last() == 0), "C19:is_empty");
    assert!(log.last_entry() == p.entry(p.last()), "C19:last_entry");
    let mut i = 0u64;
    while i <= (nb() as u64) + 1 {
        assert!(log.entry(i).ok().flatten() == p.entry(i), "C19:entry");
        assert!(log.entry_term(i) == p.entry_term(i), "C19:entry_term");
        i += 1;
    }
    let mut t = 0u64;
    while t <= tb() {
        assert!(log.first_index_for_term(t) == p.first_for_term(t), "C19:first_index_for_term");
        assert!(log.last_index_for_term(t) == p.last_for_term(t), "C19:last_index_for_term");
        t += 1;
    }
    let _ = tag;
}
pub struct RaftLogQ;
impl RaftLogQ {
    pub fn is_empty(log: &Log) -> bool {
        log.entries.is_empty()
    }
}

// ---------------------------------------------------------------------------------------------
// operation SHAPES (concrete per harness: kind + number of entries) with symbolic VALUES
// ---------------------------------------------------------------------------------------------
pub const A1: u8 = 1;
pub const A2: u8 = 2;
pub const F0: u8 = 10;
pub const F1: u8 = 11;
pub const F2: u8 = 12;
pub const F3: u8 = 13;
pub const PU: u8 = 20;
pub const RS: u8 = 30;

/// Apply one operation of the given concrete shape to both logs (values symbolic), then compare every query.
#[inline(always)]
pub fn apply(log: &Log, p: &mut Plain, shape: u8) {
    apply_at(log, p, shape, None)
}
#[inline(always)]
pub fn apply_at(log: &Log, p: &mut Plain, shape: u8, prev_fixed: Option<u64>) {
    match shape {
        A1 | A2 => {
            let n = shape as usize;
            let term: u64 = kani::any();
            kani::assume(term >= 1 && term <= tb());
            let (li, lt) = match p.last_log_id() {
                Some(l) => (l.index, l.term),
                None => (0, 0),
            };
            kani::assume(term >= lt && li as usize + n <= nb());
            let r = if n == 1 {
                log.append_entries(vec_exact(1, |k| ent(li + 1 + k as u64, term)))
            } else {
                log.append_entries(vec_exact(2, |k| ent(li + 1 + k as u64, term)))
            };
            assert!(r.is_ok(), "C19:append_ok");
            let mut k = 0;
            while k < n {
                p.put(li + 1 + k as u64, term);
                k += 1;
            }
        }
        F0 | F1 | F2 | F3 => {
            let n = (shape - F0) as usize;
            let mut r = any_req();
            r.n = n;
            if let Some(pi) = prev_fixed {
                r.prev_i = pi;
            }
            kani::assume(req_is_raft_valid(p, &r));
            let e = |k: usize| ent(r.prev_i + 1 + k as u64, r.terms[k]);
            let got = match n {
                0 => log.filter_out_conflicts_and_append(r.prev_i, r.prev_t, Vec::new()),
                1 => log.filter_out_conflicts_and_append(r.prev_i, r.prev_t, vec_exact(1, e)),
                2 => log.filter_out_conflicts_and_append(r.prev_i, r.prev_t, vec_exact(2, e)),
                _ => log.filter_out_conflicts_and_append(r.prev_i, r.prev_t, vec_exact(3, e)),
            };
            let want = plain_foca(p, &r);
            match got {
                Ok(g) => assert!(g == want, "C19:conflict_append_result"),
                Err(_) => panic!("C19:conflict_append_failed"),
            }
        }
        PU => {
            let cutoff = LogId { term: kani::any(), index: match prev_fixed { Some(i) => i, None => kani::any() } };
            kani::assume(cutoff.index >= 1 && cutoff.index as usize <= nb() && cutoff.term >= 1 && cutoff.term <= tb());
            // a purge cutoff is the id of an applied (committed) entry: if the entry is still in the log it has that term
            kani::assume(!p.has(cutoff.index) || p.t[cutoff.index as usize] == cutoff.term);
            let r = log.purge_logs_up_to(cutoff);
            assert!(r.is_ok(), "C19:purge_ok");
            p.purge_upto(cutoff);
        }
        _ => {
            let r = log.reset();
            assert!(r.is_ok(), "C19:reset_ok");
            p.truncate_from(0);
        }
    }
    compare(log, p, "after op");
}

pub fn fresh_b(nb: usize, tb: u64) -> (Log, mpsc::UnboundedReceiver<IOTask>, Plain) {
    assert!(nb <= N && nb < CAP + 1 && tb <= TMAX);
    *NB.m() = nb;
    *TB.m() = tb;
    fresh()
}
pub fn fresh() -> (Log, mpsc::UnboundedReceiver<IOTask>, Plain) {
    let (log, rx) = mk_log(MLogStore::empty());
    (log, rx, Plain::new())
}

include!("gen_seq.rs");

/// concrete leader append (values fixed: folds completely during symbolic execution)
pub fn c_append(log: &Log, p: &mut Plain, first: u64, terms: &[u64]) {
    let r = match terms.len() {
        1 => log.append_entries(vec_exact(1, |k| ent(first + k as u64, terms[k]))),
        2 => log.append_entries(vec_exact(2, |k| ent(first + k as u64, terms[k]))),
        _ => log.append_entries(vec_exact(3, |k| ent(first + k as u64, terms[k]))),
    };
    assert!(r.is_ok());
    let mut k = 0;
    while k < terms.len() {
        p.put(first + k as u64, terms[k]);
        k += 1;
    }
}
// ---------------------------------------------------------------------------------------------
// C09: the leader's commit rule on the REAL log: calculate_majority_matched_index
// ---------------------------------------------------------------------------------------------
/// Log state constructed directly (entries 1..=3 with symbolic non-decreasing terms, max_index = 3): the function
/// under test reads `last_entry_id()` and `entry(i)` only.
fn c09_majority(k: usize) {
    let (log, rx, _p) = fresh_b(4, 3);
    let t: [u64; 3] = kani::any();
    kani::assume(t[0] >= 1 && t[0] <= t[1] && t[1] <= t[2] && t[2] <= 3);
    log.entries.insert(1, ent(1, t[0]));
    log.entries.insert(2, ent(2, t[1]));
    log.entries.insert(3, ent(3, t[2]));
    log.min_index.store(1, Ordering::Release);
    log.max_index.store(3, Ordering::Release);
    let m: [u64; 4] = kani::any();
    kani::assume(m[0] <= 3 && m[1] <= 3 && m[2] <= 3 && m[3] <= 3);
    let cur: u64 = kani::any();
    let commit: u64 = kani::any();
    kani::assume(cur >= t[2] && cur <= 4 && commit <= 3);
    // capacity k+1, length k: the push inside the function under test does not reallocate
    let mut peers = vec_exact(k + 1, |i| if i < 4 { m[i] } else { 0 });
    peers.truncate(k);
    let got = log.calculate_majority_matched_index(cur, commit, peers);
    // voters = k peers + the leader itself (its own last index is 3)
    let total = k + 1;
    kani::cover!(got.is_some(), "some_index_committable");
    kani::cover!(got.is_none(), "nothing_committable");
    if let Some(n) = got {
        let mut have = if 3 >= n { 1 } else { 0 };
        let mut i = 0;
        while i < k {
            if m[i] >= n {
                have += 1;
            }
            i += 1;
        }
        assert!(have * 2 > total, "C09:commit_index_not_held_by_a_voter_majority");
        assert!(n >= commit, "C09:commit_index_moved_backwards");
        assert!(n >= 1 && n <= 3 && t[(n - 1) as usize] == cur, "C09:committed_entry_not_from_current_term");
    }
    // weak progress: everybody holds the whole log and its last entry is from the current term
    let mut all = true;
    let mut i = 0;
    while i < k {
        if m[i] != 3 {
            all = false;
        }
        i += 1;
    }
    if all && t[2] == cur {
        assert!(got == Some(3), "C09:fully_replicated_current_term_entry_not_committable");
    }
    std::mem::forget(log);
    std::mem::forget(rx);
}
#[kani::proof]
#[kani::unwind(2)]
pub fn c09_majority_rule_1_peer() {
    c09_majority(1)
}
#[kani::proof]
#[kani::unwind(2)]
pub fn c09_majority_rule_2_peers() {
    c09_majority(2)
}
#[kani::proof]
#[kani::unwind(2)]
pub fn c09_majority_rule_3_peers() {
    c09_majority(3)
}
#[kani::proof]
#[kani::unwind(2)]
pub fn c09_majority_rule_4_peers() {
    c09_majority(4)
}


// ---------------------------------------------------------------------------------------------
// C05: a conflict-aware append may delete entries only from the first CONFLICTING index on
// ---------------------------------------------------------------------------------------------
/// Follower log [1:t1, 2:t1, 3:t2] (concrete), any Raft-valid request with prev = (0, 0) and `n` entries.
/// Restricted to the start-from-scratch branch (prev index/term concretely 0), the only branch of
/// `filter_out_conflicts_and_append` that is decidable on a non-empty log (DESIGN 2c).
fn c05_scratch(n: usize) {
    let (log, rx, mut p) = fresh_b(4, 3);
    c_append(&log, &mut p, 1, &[1, 1, 2]);
    let mut r = any_req();
    r.n = n;
    r.prev_i = 0;
    r.prev_t = 0;
    kani::assume(req_is_raft_valid(&p, &r));
    let before = p;
    let e = |k: usize| ent(1 + k as u64, r.terms[k]);
    let got = match n {
        1 => log.filter_out_conflicts_and_append(0, 0, vec_exact(1, e)),
        _ => log.filter_out_conflicts_and_append(0, 0, vec_exact(2, e)),
    };
    assert!(got.is_ok(), "C05:scratch_request_failed");
    // does any request entry conflict with what the follower holds at that index?
    let mut conflict = false;
    let mut k = 0;
    while k < n {
        if before.t[k + 1] != 0 && before.t[k + 1] != r.terms[k] {
            conflict = true;
        }
        k += 1;
    }
    kani::cover!(!conflict, "request_agrees_with_the_follower_log");
    kani::cover!(conflict, "request_conflicts_with_the_follower_log");
    // every request entry is in the log afterwards (either way)
    let mut k = 0;
    while k < n {
        assert!(log.entry(1 + k as u64).ok().flatten() == Some(e(k)), "C05:request_entry_missing_after_append");
        k += 1;
    }
    if !conflict {
        // Raft (Figure 2, AppendEntries receiver rule 3): only a conflicting entry and what follows it may be deleted
        let mut i = 1u64;
        while i <= 3 {
            assert!(log.entry(i).ok().flatten() == before.entry(i), "C05:start_from_scratch_request_discards_agreeing_entries");
            i += 1;
        }
    }
    std::mem::forget(log);
    std::mem::forget(rx);
}
#[kani::proof]
#[kani::unwind(2)]
pub fn c05_scratch_request_keeps_agreeing_entries_1() {
    c05_scratch(1)
}
#[kani::proof]
#[kani::unwind(2)]
pub fn c05_scratch_request_keeps_agreeing_entries_2() {
    c05_scratch(2)
}

// thin public wrappers (the methods under test are private to the generated module) for native_diff.rs
pub fn op_append(log: &Log, es: Vec<Entry>) -> Result<()> {
    log.append_entries(es)
}
pub fn op_foca(log: &Log, prev_i: u64, prev_t: u64, es: Vec<Entry>) -> Result<Option<LogId>> {
    log.filter_out_conflicts_and_append(prev_i, prev_t, es)
}
pub fn op_purge(log: &Log, cutoff: LogId) -> Result<()> {
    log.purge_logs_up_to(cutoff)
}

// ---------------------------------------------------------------------------------------------
// C19: the term-segment cache on its own (no maps involved: cheap), including the "array full" path
// ---------------------------------------------------------------------------------------------
/// Six consecutive entries with symbolic non-decreasing terms are appended to a fresh TermSegments
/// (capacity MAX_TERM_SEGMENTS = 3 in the shadow build, 1024 in the real one: rewrite R3).
/// `get` may answer None (entry_term then falls back to the entry map) but never a wrong term -- and it must not
/// panic: before the fix b745c42 it indexed the segment array out of bounds once the array had overflowed.
#[kani::proof]
#[kani::unwind(2)]
pub fn c19_term_segments_many_terms() {
    let ts = TermSegments::new();
    let t: [u64; 6] = kani::any();
    kani::assume(t[0] >= 1 && t[0] <= t[1] && t[1] <= t[2] && t[2] <= t[3] && t[3] <= t[4] && t[4] <= t[5] && t[5] <= 6);
    let es = [ent(1, t[0]), ent(2, t[1]), ent(3, t[2]), ent(4, t[3]), ent(5, t[4]), ent(6, t[5])];
    ts.on_append(&es);
    let mut changes = 0;
    let mut i = 1;
    while i < 6 {
        if t[i] != t[i - 1] {
            changes += 1;
        }
        i += 1;
    }
    kani::cover!(changes == 2, "two_term_changes");
    kani::cover!(changes == 5, "more_term_changes_than_segments");
    let mut i = 1u64;
    while i <= 6 {
        match ts.get(i) {
            Some(x) => assert!(x == t[(i - 1) as usize], "C19:term_segments_report_a_wrong_term"),
            None => {}
        }
        i += 1;
    }
}
