//! Harnesses over the shadow build (child module of the generated file: sees private fields / methods).
use super::*;
use std::future::Future;
use std::mem::ManuallyDrop;

pub const N: usize = 5; // indexes 1..=N

// ---------------------------------------------------------------------------------------------
// model storage engine (disk side)
// ---------------------------------------------------------------------------------------------
pub struct MT;
impl TypeConfig for MT {
    type SE = MStore;
}
pub struct MStore {
    pub log: Arc<MLogStore>,
    pub meta: Arc<MMeta>,
}
impl StorageEngine for MStore {
    type LogStore = MLogStore;
    type MetaStore = MMeta;
    fn log_store(&self) -> Arc<MLogStore> {
        self.log.clone()
    }
    fn meta_store(&self) -> Arc<MMeta> {
        self.meta.clone()
    }
}
pub struct MMeta;
impl MetaStore for MMeta {
    fn load_hard_state(&self) -> Result<Option<HardState>> {
        Ok(None)
    }
    fn save_hard_state(&self, _hs: &HardState) -> Result<()> {
        Ok(())
    }
    fn flush(&self) -> Result<()> {
        Ok(())
    }
}
/// Disk model: entries 1..=len with the given terms (contiguous), optional purge boundary; counts the IO calls.
pub struct MLogStore {
    pub len: SCell<u64>,
    pub first: SCell<u64>,
    pub terms: SCell<[u64; N + 1]>,
    pub boundary: SCell<Option<LogId>>,
    pub n_replace: SCell<u32>,
    pub n_purge: SCell<u32>,
    pub n_reset: SCell<u32>,
    pub n_persist: SCell<u32>,
}
pub fn pay(index: u64, term: u64) -> u8 {
    (index.wrapping_mul(7).wrapping_add(term.wrapping_mul(13)) & 0xff) as u8
}
pub fn ent(index: u64, term: u64) -> Entry {
    Entry { index, term, payload: pay(index, term) }
}
pub fn vec_exact<T>(n: usize, mut f: impl FnMut(usize) -> T) -> Vec<T> {
    match n {
        0 => Vec::new(),
        1 => vec![f(0)],
        2 => vec![f(0), f(1)],
        3 => vec![f(0), f(1), f(2)],
        4 => vec![f(0), f(1), f(2), f(3)],
        5 => vec![f(0), f(1), f(2), f(3), f(4)],
        _ => panic!("vec_exact: more than 5 elements"),
    }
}
impl MLogStore {
    pub fn empty() -> Self {
        MLogStore {
            len: SCell::new(0),
            first: SCell::new(1),
            terms: SCell::new([0; N + 1]),
            boundary: SCell::new(None),
            n_replace: SCell::new(0),
            n_purge: SCell::new(0),
            n_reset: SCell::new(0),
            n_persist: SCell::new(0),
        }
    }
}
impl LogStore for MLogStore {
    fn last_index(&self) -> u64 {
        *self.len.r()
    }
    fn get_entries(&self, range: std::ops::RangeInclusive<u64>) -> Result<Vec<Entry>> {
        let first = (*self.first.r()).max(*range.start());
        let last = (*self.len.r()).min(*range.end());
        if first > last {
            return Ok(Vec::new());
        }
        let n = (last - first + 1) as usize;
        let t = *self.terms.r();
        Ok(vec_exact(n, |i| ent(first + i as u64, t[(first as usize) + i])))
    }
    fn load_purge_boundary(&self) -> Result<Option<LogId>> {
        Ok(*self.boundary.r())
    }
    fn is_write_durable(&self) -> bool {
        false
    }
    fn flush(&self) -> Result<()> {
        Ok(())
    }
    async fn persist_entries(&self, entries: Vec<Entry>) -> Result<()> {
        *self.n_persist.m() += 1;
        std::mem::forget(entries);
        Ok(())
    }
    async fn replace_range(&self, _truncate_from: u64, new_entries: Vec<Entry>) -> Result<()> {
        *self.n_replace.m() += 1;
        std::mem::forget(new_entries);
        Ok(())
    }
    async fn purge(&self, _cutoff: LogId) -> Result<()> {
        *self.n_purge.m() += 1;
        Ok(())
    }
    async fn reset(&self) -> Result<()> {
        *self.n_reset.m() += 1;
        Ok(())
    }
}

pub type Log = BufferedRaftLog<MT>;

pub fn mk_log(store: MLogStore) -> (Arc<Log>, mpsc::UnboundedReceiver<IOTask>) {
    let st = Arc::new(MStore { log: Arc::new(store), meta: Arc::new(MMeta) });
    let cfg = PersistenceConfig { strategy: PersistenceStrategy::MemFirst, flush_policy: FlushPolicy::Batch { idle_flush_interval_ms: 10 } };
    let (log, rx) = Log::new(1, cfg, st);
    (Arc::new(log), rx)
}

/// Run `fut` to completion; whenever it is pending the harness plays the IO thread: it receives one queued IOTask
/// and answers it through the REAL `handle_non_write_cmd`.
pub fn drive<F: Future>(log: &Arc<Log>, rx: &mut mpsc::UnboundedReceiver<IOTask>, fut: F) -> F::Output {
    let mut fut = std::pin::pin!(fut);
    let mut pending_max = 0u64;
    let mut rounds = 0;
    loop {
        if let Some(v) = poll_once(fut.as_mut()) {
            return v;
        }
        rounds += 1;
        assert!(rounds <= 3, "drive: operation did not finish after three IO-thread rounds");
        match rx.try_recv() {
            Ok(cmd) => {
                let mut h = std::pin::pin!(Log::handle_non_write_cmd(cmd, log, &mut pending_max));
                let r = poll_once(h.as_mut());
                assert!(r.is_some(), "drive: IO handler pending");
            }
            Err(_) => panic!("drive: operation pending but no IO task queued"),
        }
    }
}


// ---------------------------------------------------------------------------------------------
// reference: a plain indexed log (term per index, 0 = absent) + the last purge cutoff
// ---------------------------------------------------------------------------------------------
#[derive(Clone, Copy)]
pub struct Plain {
    pub t: [u64; N + 2],
    pub pb: Option<LogId>,
}
impl Plain {
    pub fn new() -> Self {
        Plain { t: [0; N + 2], pb: None }
    }
    pub fn first(&self) -> u64 {
        let mut i = 1;
        while i <= N {
            if self.t[i] != 0 {
                return i as u64;
            }
            i += 1;
        }
        0
    }
    pub fn last(&self) -> u64 {
        let mut i = N;
        while i >= 1 {
            if self.t[i] != 0 {
                return i as u64;
            }
            i -= 1;
        }
        0
    }
    pub fn has(&self, i: u64) -> bool {
        i >= 1 && (i as usize) <= N && self.t[i as usize] != 0
    }
    pub fn entry(&self, i: u64) -> Option<Entry> {
        if self.has(i) { Some(ent(i, self.t[i as usize])) } else { None }
    }
    /// documented rule: term of a present entry, else the purge-boundary term at the boundary index
    pub fn entry_term(&self, i: u64) -> Option<u64> {
        if self.has(i) {
            return Some(self.t[i as usize]);
        }
        match self.pb {
            Some(b) if b.index > 0 && b.index == i => Some(b.term),
            _ => None,
        }
    }
    pub fn last_log_id(&self) -> Option<LogId> {
        let l = self.last();
        if l > 0 {
            return Some(LogId { term: self.t[l as usize], index: l });
        }
        match self.pb {
            Some(b) if b.index > 0 => Some(b),
            _ => None,
        }
    }
    pub fn first_for_term(&self, term: u64) -> Option<u64> {
        let mut i = 1;
        while i <= N {
            if self.t[i] == term && term != 0 {
                return Some(i as u64);
            }
            i += 1;
        }
        None
    }
    pub fn last_for_term(&self, term: u64) -> Option<u64> {
        let mut i = N;
        while i >= 1 {
            if self.t[i] == term && term != 0 {
                return Some(i as u64);
            }
            i -= 1;
        }
        None
    }
    pub fn truncate_from(&mut self, from: u64) {
        let mut i = 1;
        while i <= N {
            if (i as u64) >= from {
                self.t[i] = 0;
            }
            i += 1;
        }
    }
    pub fn purge_upto(&mut self, cutoff: LogId) {
        let mut i = 1;
        while i <= N {
            if (i as u64) <= cutoff.index {
                self.t[i] = 0;
            }
            i += 1;
        }
        self.pb = Some(cutoff);
    }
    pub fn put(&mut self, i: u64, term: u64) {
        self.t[i as usize] = term;
    }
    /// contiguous, terms non-decreasing
    pub fn well_formed(&self) -> bool {
        let f = self.first();
        let l = self.last();
        let mut i = 1;
        let mut prev = 0;
        while i <= N {
            let ii = i as u64;
            if f != 0 && ii >= f && ii <= l {
                if self.t[i] == 0 || self.t[i] < prev {
                    return false;
                }
                prev = self.t[i];
            }
            i += 1;
        }
        true
    }
}

/// A request body: `n` entries prev+1.. with the given terms.
#[derive(Clone, Copy)]
pub struct Req {
    pub prev_i: u64,
    pub prev_t: u64,
    pub n: usize,
    pub terms: [u64; 3],
}
impl Req {
    pub fn entries(&self) -> Vec<Entry> {
        let r = *self;
        vec_exact(r.n, |k| ent(r.prev_i + 1 + k as u64, r.terms[k]))
    }
}

/// Raft's conflict-aware append on the plain log (Figure 2 of the Raft paper, plus d-engine's documented
/// "prev (0,0) = start from scratch" rule).  Returns what the follower reports as its last matching id.
pub fn plain_foca(p: &mut Plain, r: &Req) -> Option<LogId> {
    let last_new = if r.n == 0 { None } else { Some(LogId { term: r.terms[r.n - 1], index: r.prev_i + r.n as u64 }) };
    if r.prev_i == 0 && r.prev_t == 0 {
        p.truncate_from(0);
        let mut k = 0;
        while k < r.n {
            p.put(1 + k as u64, r.terms[k]);
            k += 1;
        }
        return last_new;
    }
    if p.entry_term(r.prev_i) != Some(r.prev_t) {
        return p.last_log_id();
    }
    let mut k = 0;
    while k < r.n {
        let idx = r.prev_i + 1 + k as u64;
        if p.has(idx) && p.t[idx as usize] == r.terms[k] {
            k += 1;
            continue;
        }
        if p.has(idx) {
            p.truncate_from(idx);
        }
        let mut j = k;
        while j < r.n {
            p.put(r.prev_i + 1 + j as u64, r.terms[j]);
            j += 1;
        }
        break;
    }
    last_new
}

/// Inputs a Raft leader can send to a follower whose log is `p` (Log Matching: a request entry that agrees with
/// the follower in (index, term) implies every earlier request entry agrees too; terms never decrease).
pub fn req_is_raft_valid(p: &Plain, r: &Req) -> bool {
    if r.n > 3 || r.prev_i as usize + r.n > N {
        return false;
    }
    if r.prev_i == 0 && r.prev_t != 0 {
        return false;
    }
    let mut prev = r.prev_t;
    let mut mismatch_seen = false;
    let mut k = 0;
    while k < 3 {
        if k < r.n {
            if r.terms[k] == 0 || r.terms[k] < prev || r.terms[k] > TMAX {
                return false;
            }
            prev = r.terms[k];
            let idx = r.prev_i + 1 + k as u64;
            let agrees = p.has(idx) && p.t[idx as usize] == r.terms[k];
            if agrees && mismatch_seen {
                return false;
            }
            if !agrees {
                mismatch_seen = true;
            }
        }
        k += 1;
    }
    true
}
pub const TMAX: u64 = 4;

pub fn any_req() -> Req {
    Req { prev_i: kani::any(), prev_t: kani::any(), n: kani::any(), terms: kani::any() }
}

/// Every query of the RaftLog API answered by the buffered log equals the plain log's answer.
pub fn compare(log: &Log, p: &Plain, tag: &'static str) {
    assert!(log.first_entry_id() == p.first(), "C19:first_entry_id");
    assert!(log.last_entry_id() == p.last(), "C19:last_entry_id");
    assert!(log.last_log_id() == p.last_log_id(), "C19:last_log_id");
    assert!(RaftLogQ::is_empty(log) == (p.last() == 0), "C19:is_empty");
    assert!(log.last_entry() == p.entry(p.last()), "C19:last_entry");
    let mut i = 0u64;
    while i <= (N as u64) + 1 {
        assert!(log.entry(i).ok().flatten() == p.entry(i), "C19:entry");
        assert!(log.entry_term(i) == p.entry_term(i), "C19:entry_term");
        i += 1;
    }
    let mut t = 0u64;
    while t <= TMAX {
        assert!(log.first_index_for_term(t) == p.first_for_term(t), "C19:first_index_for_term");
        assert!(log.last_index_for_term(t) == p.last_for_term(t), "C19:last_index_for_term");
        t += 1;
    }
    let _ = tag;
}
pub struct RaftLogQ;
impl RaftLogQ {
    pub fn is_empty(log: &Log) -> bool {
        log.entries.is_empty()
    }
}

/// One symbolic operation applied to both logs. kind: 0 leader append, 1 conflict-aware append, 2 purge, 3 reset
pub fn step(log: &Arc<Log>, rx: &mut mpsc::UnboundedReceiver<IOTask>, p: &mut Plain, kind: u8) {
    match kind {
        0 => {
            // leader path: n <= 2 entries of one term at the next indexes
            let n: usize = kani::any();
            let term: u64 = kani::any();
            kani::assume(n >= 1 && n <= 2 && term >= 1 && term <= TMAX);
            let lid = p.last_log_id();
            let (li, lt) = match lid {
                Some(l) => (l.index, l.term),
                None => (0, 0),
            };
            kani::assume(term >= lt && li as usize + n <= N);
            let es = vec_exact(n, |k| ent(li + 1 + k as u64, term));
            let r = drive(log, rx, log.append_entries(es));
            assert!(r.is_ok(), "C19:append_ok");
            let mut k = 0;
            while k < n {
                p.put(li + 1 + k as u64, term);
                k += 1;
            }
        }
        1 => {
            let r = any_req();
            kani::assume(req_is_raft_valid(p, &r));
            let got = drive(log, rx, log.filter_out_conflicts_and_append(r.prev_i, r.prev_t, r.entries()));
            let want = plain_foca(p, &r);
            match got {
                Ok(g) => assert!(g == want, "C19:conflict_append_result"),
                Err(_) => panic!("C19:conflict_append_failed"),
            }
        }
        2 => {
            let cutoff = LogId { term: kani::any(), index: kani::any() };
            kani::assume(cutoff.index >= 1 && cutoff.index as usize <= N && cutoff.term >= 1 && cutoff.term <= TMAX);
            // a purge cutoff is the id of an applied (committed) entry: if the entry is still in the log it has that term
            kani::assume(!p.has(cutoff.index) || p.t[cutoff.index as usize] == cutoff.term);
            let r = drive(log, rx, log.purge_logs_up_to(cutoff));
            assert!(r.is_ok(), "C19:purge_ok");
            p.purge_upto(cutoff);
        }
        _ => {
            let r = drive(log, rx, log.reset());
            assert!(r.is_ok(), "C19:reset_ok");
            p.truncate_from(0);
        }
    }
}

#[kani::proof]
#[kani::unwind(2)]
fn c19_two_ops_from_empty() {
    let (log, mut rx) = mk_log(MLogStore::empty());
    let mut p = Plain::new();
    let k1: u8 = kani::any();
    let k2: u8 = kani::any();
    kani::assume(k1 <= 3 && k2 <= 3);
    step(&log, &mut rx, &mut p, k1);
    compare(&log, &p, "after1");
    step(&log, &mut rx, &mut p, k2);
    kani::cover!(k1 == 0 && k2 == 1 && p.last() >= 2, "append_then_conflict_append");
    kani::cover!(k1 == 1 && k2 == 2 && p.last() > 0, "append_then_partial_purge");
    compare(&log, &p, "after2");
    std::mem::forget(log);
    std::mem::forget(rx);
}

#[kani::proof]
#[kani::unwind(2)]
fn s00_smoke() {
    let (log, mut rx) = mk_log(MLogStore::empty());
    let t: u64 = kani::any();
    kani::assume(t >= 1 && t <= 3);
    let r = drive(&log, &mut rx, log.append_entries(vec_exact(1, |_| ent(1, t))));
    assert!(r.is_ok());
    kani::cover!(t == 2, "append_t2");
    assert!(log.last_log_id() == Some(LogId { term: t, index: 1 }), "S00:last_log_id");
    assert!(log.entry_term(1) == Some(t), "S00:entry_term");
    std::mem::forget(log);
    std::mem::forget(rx);
}
