//! NOT a check: a native sanity run of the shadow build + shim models + plain-log oracle over LONGER operation sequences
//! than the solver can reach (pseudo-random, fixed seed).  Purpose: validate the environment (shim, oracle, rewrites) the
//! way the guidance asks for ("push inputs through both the real function and the encoding").  Run with
//!   cd kani/shadow && cargo kani playback -Z concrete-playback -- native_diff --nocapture
//! A mismatch here would mean either a defect of the buffered log on a multi-operation sequence (outside every claim) or
//! an error in the models / oracle; it decides no property.
use crate::gen_brl::h::*;
use crate::shim::*;

struct Lcg(u64);
impl Lcg {
    fn next(&mut self, m: u64) -> u64 {
        self.0 = self.0.wrapping_mul(6364136223846793005).wrapping_add(1442695040888963407);
        (self.0 >> 33) % m
    }
}

fn one_sequence(seed: u64, steps: usize) -> usize {
    let verbose = std::env::var("NATIVE_DIFF_SEED").ok().and_then(|v| v.parse::<u64>().ok()) == Some(seed);
    let (log, rx, mut p) = fresh_b(4, 3);
    let mut g = Lcg(seed);
    let mut done = 0;
    for _ in 0..steps {
        crate::shim::reset_pools_for_native_tests();
        match g.next(4) {
            0 => {
                // leader append of 1..2 entries
                let n = 1 + g.next(2) as usize;
                let (li, lt) = match p.last_log_id() {
                    Some(l) => (l.index, l.term),
                    None => (0, 0),
                };
                let term = (lt.max(1) + g.next(2)).min(3);
                if term < lt || li as usize + n > 4 {
                    continue;
                }
                if verbose {
                    eprintln!("append n={n} at {} term {term}", li + 1);
                }
                let es: Vec<Entry> = (0..n).map(|k| ent(li + 1 + k as u64, term)).collect();
                assert!(op_append(&log, es).is_ok());
                for k in 0..n {
                    p.put(li + 1 + k as u64, term);
                }
            }
            1 | 2 => {
                // conflict-aware append
                let n = g.next(4) as usize;
                let prev_i = g.next(5);
                let prev_t = if prev_i == 0 { 0 } else if g.next(4) == 0 { 1 + g.next(3) } else { p.entry_term(prev_i).unwrap_or(1 + g.next(3)) };
                let mut terms = [0u64; 3];
                let mut t = prev_t.max(1);
                for k in 0..3 {
                    // mostly agree with the follower, sometimes diverge upwards
                    let idx = prev_i + 1 + k as u64;
                    let have = if p.has(idx) { p.t[idx as usize] } else { 0 };
                    t = if have >= t && g.next(3) != 0 { have } else { (t + g.next(2)).min(3) };
                    terms[k] = t;
                }
                let r = Req { prev_i, prev_t, n: n.min(3), terms };
                if !req_is_raft_valid(&p, &r) {
                    continue;
                }
                // a leader's prev is the follower's acknowledged position or below it: never beyond the follower's last
                // log id (a request that would leave an index gap is the C08 finding, not C19's subject)
                let last_pos = p.last_log_id().map(|l| l.index).unwrap_or(0);
                if prev_i > last_pos {
                    continue;
                }
                if verbose {
                    eprintln!("foca prev=({prev_i},{prev_t}) n={} terms={:?}", r.n, &terms[..r.n]);
                }
                let es: Vec<Entry> = (0..r.n).map(|k| ent(prev_i + 1 + k as u64, terms[k])).collect();
                let got = op_foca(&log, prev_i, prev_t, es);
                let want = plain_foca(&mut p, &r);
                assert!(matches!(got, Ok(g2) if g2 == want), "conflict-append result differs from the plain log");
            }
            _ => {
                // a purge never goes backwards (can_purge_logs: strictly above the previous purge) and names a real log id:
                // the entry's own term if it is still in the log, otherwise (snapshot beyond the log) a term >= the last known one
                let idx = 1 + g.next(4);
                let floor_t = p.last_log_id().map(|l| l.term).unwrap_or(1);
                if let Some(b) = p.pb {
                    if idx <= b.index {
                        continue;
                    }
                }
                if !p.has(idx) && p.last() > idx {
                    continue; // inside a gap left of the log: not a position a snapshot of this node can name
                }
                let term = if p.has(idx) { p.t[idx as usize] } else { (floor_t + g.next(2)).min(3) };
                let cutoff = LogId { term, index: idx };
                if verbose {
                    eprintln!("purge {:?}", cutoff);
                }
                assert!(op_purge(&log, cutoff).is_ok());
                p.purge_upto(cutoff);
            }
        }
        if verbose {
            eprintln!("   plain: {:?} boundary {:?}", &p.t[1..=4], p.pb);
        }
        compare(&log, &p, "native");
        done += 1;
    }
    std::mem::forget(rx);
    done
}

#[test]
fn native_diff_long_sequences() {
    let mut total = 0;
    for seed in 1..=4000u64 {
        if std::env::var("NATIVE_DIFF_TRACE").is_ok() {
            eprintln!("seed {seed}");
        }
        // the channel / oneshot pools are global statics with a small capacity: reset them per sequence
        crate::shim::reset_pools_for_native_tests();
        total += one_sequence(seed, 6);
    }
    println!("native_diff: {total} operations over 4000 sequences compared with the plain log");
    assert!(total > 8000);
}
