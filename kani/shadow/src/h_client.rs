//! C29: every client write gets exactly one response, a success only after commit (and, when it waits for the state
//! machine, after apply), and a CAS response reports the outcome applied at its own entry.
use super::*;
use crate::shim::SCell;

fn reset_recorders() {
    *SENT_COUNT.m() = [0; NSEND];
    *SENT_WHAT.m() = [None; NSEND];
}
fn mk_slice() -> ClientSlice<CT> {
    ClientSlice {
        pending_client_writes: BTreeMap::new(),
        pending_write_apply: HashMap::new(),
        write_propose_times: HashMap::new(),
        pending_reads: BTreeMap::new(),
        term: 3,
        reads_executed: 0,
        _t: std::marker::PhantomData,
    }
}
/// Two pending batches: A = entries [a0, a0+1] (senders 0,1), B = entry [b0] (sender 2), B after A.
struct Setup {
    a0: u64,
    b0: u64,
    wait_a: bool,
    wait_b: bool,
}
fn setup(ls: &mut ClientSlice<CT>) -> Setup {
    let a0: u64 = kani::any();
    kani::assume(a0 >= 1 && a0 < 1000);
    let b0 = a0 + 2;
    let wait_a: bool = kani::any();
    let wait_b: bool = kani::any();
    ls.pending_client_writes.insert(a0 + 1, WriteMetadata { start_idx: a0, senders: vec![sender(0), sender(1)], wait_for_apply: wait_a, deadline: Instant });
    ls.pending_client_writes.insert(b0, WriteMetadata { start_idx: b0, senders: vec![sender(2)], wait_for_apply: wait_b, deadline: Instant });
    Setup { a0, b0, wait_a, wait_b }
}

#[kani::proof]
#[kani::unwind(2)]
pub fn c29_commit_drain() {
    reset_recorders();
    let mut ls = mk_slice();
    let st = setup(&mut ls);
    let commit: u64 = kani::any();
    ls.drain_pending_client_writes(commit);
    let a_committed = commit >= st.a0 + 1;
    let b_committed = commit >= st.b0;
    kani::cover!(a_committed && !b_committed, "first_batch_only");
    kani::cover!(a_committed && b_committed, "both_batches");
    kani::cover!(!a_committed, "nothing_committed");
    let cnt = *SENT_COUNT.r();
    let what = *SENT_WHAT.r();
    // batch A (senders 0, 1)
    let mut s = 0;
    while s < 2 {
        if a_committed && !st.wait_a {
            assert!(cnt[s] == 1 && what[s] == Some(ClientResponse::WriteSuccess), "C29:committed_write_not_answered_exactly_once_with_success");
        } else {
            assert!(cnt[s] == 0, "C29:write_answered_before_commit_or_before_apply");
        }
        s += 1;
    }
    if a_committed && st.wait_a {
        // parked under each write's OWN log index until the state machine reports its outcome
        assert!(ls.pending_write_apply.get(&st.a0).map(|x| x.id) == Some(0), "C29:apply_waiter_keyed_by_wrong_index");
        assert!(ls.pending_write_apply.get(&(st.a0 + 1)).map(|x| x.id) == Some(1), "C29:apply_waiter_keyed_by_wrong_index");
    }
    assert!(ls.pending_client_writes.contains_key(&(st.a0 + 1)) == !a_committed, "C29:pending_batch_lost_or_kept_wrongly");
    // batch B (sender 2)
    if b_committed && !st.wait_b {
        assert!(cnt[2] == 1 && what[2] == Some(ClientResponse::WriteSuccess), "C29:committed_write_not_answered_exactly_once_with_success");
    } else {
        assert!(cnt[2] == 0, "C29:write_answered_before_commit_or_before_apply");
    }
    if b_committed && st.wait_b {
        assert!(ls.pending_write_apply.get(&st.b0).map(|x| x.id) == Some(2), "C29:apply_waiter_keyed_by_wrong_index");
    }
    assert!(ls.pending_client_writes.contains_key(&st.b0) == !b_committed, "C29:pending_batch_lost_or_kept_wrongly");
    std::mem::forget(ls);
}

#[kani::proof]
#[kani::unwind(2)]
pub fn c29_apply_results_to_responses() {
    reset_recorders();
    let mut ls = mk_slice();
    // three writes wait for their apply result at indexes i0 < i1 < i2 (senders 0, 1, 2)
    let i0: u64 = kani::any();
    kani::assume(i0 >= 1 && i0 < 1000);
    let (i1, i2) = (i0 + 1, i0 + 2);
    ls.pending_write_apply.insert(i0, sender(0));
    ls.pending_write_apply.insert(i1, sender(1));
    ls.pending_write_apply.insert(i2, sender(2));
    // the state machine reports two results (distinct indexes, anywhere)
    let r0: u64 = kani::any();
    let r1: u64 = kani::any();
    let ok0: bool = kani::any();
    let ok1: bool = kani::any();
    kani::assume(r0 != r1);
    let results = vec![ApplyResult { index: r0, succeeded: ok0 }, ApplyResult { index: r1, succeeded: ok1 }];
    let ctx = RaftContext::<CT> { _t: std::marker::PhantomData };
    let (tx, rx) = mpsc::unbounded_channel::<InternalEvent>();
    let last: u64 = kani::any();
    let out = ls.handle_apply_completed(last, results, &ctx, &tx);
    assert!(out.is_ok(), "C29:handle_apply_completed_failed");
    kani::cover!(r0 == i1 && r1 == i2, "two_waiters_answered");
    kani::cover!(r0 != i0 && r0 != i1 && r0 != i2, "result_without_waiter");
    let cnt = *SENT_COUNT.r();
    let what = *SENT_WHAT.r();
    let idx = [i0, i1, i2];
    let mut s = 0;
    while s < 3 {
        let hit0 = r0 == idx[s];
        let hit1 = r1 == idx[s];
        if hit0 || hit1 {
            let ok = if hit0 { ok0 } else { ok1 };
            assert!(cnt[s] == 1, "C29:applied_write_not_answered_exactly_once");
            let want = if ok { ClientResponse::WriteSuccess } else { ClientResponse::CasFailure };
            kani::cover!(what[s] != Some(want), "witness:C29:response_does_not_report_the_outcome_applied_at_its_own_entry");
            assert!(what[s] == Some(want), "C29:response_does_not_report_the_outcome_applied_at_its_own_entry");
            assert!(ls.pending_write_apply.get(&idx[s]).is_none(), "C29:answered_waiter_still_registered");
        } else {
            assert!(cnt[s] == 0, "C29:write_answered_without_its_apply_result");
            assert!(ls.pending_write_apply.get(&idx[s]).map(|x| x.id) == Some(s), "C29:waiter_lost_without_a_response");
        }
        s += 1;
    }
    std::mem::forget(ls);
    std::mem::forget(rx);
    std::mem::forget(tx);
}

#[kani::proof]
#[kani::unwind(2)]
pub fn c29_step_down_drain() {
    reset_recorders();
    let mut ls = mk_slice();
    let _st = setup(&mut ls);
    ls.drain_pending_writes_with_error(ErrorCode::NotLeader);
    kani::cover!(true, "drained");
    let cnt = *SENT_COUNT.r();
    let what = *SENT_WHAT.r();
    let mut s = 0;
    while s < 3 {
        assert!(cnt[s] == 1 && what[s] == Some(ClientResponse::ClientError(ErrorCode::NotLeader)), "C29:pending_write_not_failed_exactly_once_on_step_down");
        s += 1;
    }
    assert!(ls.pending_client_writes.len() == 0, "C29:pending_batch_kept_after_step_down");
    std::mem::forget(ls);
}

/// lighter variant (stays decidable when the body is rewritten with intermediate collections): two waiters, two results
#[kani::proof]
#[kani::unwind(2)]
pub fn c29_apply_results_two_waiters() {
    reset_recorders();
    let mut ls = mk_slice();
    let i0: u64 = kani::any();
    kani::assume(i0 >= 1 && i0 < 1000);
    let i1 = i0 + 1;
    ls.pending_write_apply.insert(i0, sender(0));
    ls.pending_write_apply.insert(i1, sender(1));
    let r0: u64 = kani::any();
    let ok0: bool = kani::any();
    let ok1: bool = kani::any();
    // the first result is for the entry just below the waiters or for the first waiter; the second for the next entry
    kani::assume(r0 == i0 - 1 || r0 == i0);
    let r1 = r0 + 1;
    let results = vec![ApplyResult { index: r0, succeeded: ok0 }, ApplyResult { index: r1, succeeded: ok1 }];
    let ctx = RaftContext::<CT> { _t: std::marker::PhantomData };
    let (tx, rx) = mpsc::unbounded_channel::<InternalEvent>();
    let out = ls.handle_apply_completed(r1, results, &ctx, &tx);
    assert!(out.is_ok(), "C29:handle_apply_completed_failed");
    kani::cover!(r0 == i0 - 1, "first_result_has_no_waiter");
    kani::cover!(r0 == i0, "both_results_have_waiters");
    let cnt = *SENT_COUNT.r();
    let what = *SENT_WHAT.r();
    let idx = [i0, i1];
    let mut s = 0;
    while s < 2 {
        let hit0 = r0 == idx[s];
        let hit1 = r1 == idx[s];
        if hit0 || hit1 {
            let ok = if hit0 { ok0 } else { ok1 };
            assert!(cnt[s] == 1, "C29:applied_write_not_answered_exactly_once");
            let want = if ok { ClientResponse::WriteSuccess } else { ClientResponse::CasFailure };
            kani::cover!(what[s] != Some(want), "witness:C29:response_does_not_report_the_outcome_applied_at_its_own_entry");
            assert!(what[s] == Some(want), "C29:response_does_not_report_the_outcome_applied_at_its_own_entry");
        } else {
            assert!(cnt[s] == 0, "C29:write_answered_without_its_apply_result");
        }
        s += 1;
    }
    std::mem::forget(ls);
    std::mem::forget(rx);
    std::mem::forget(tx);
}

/// concrete indexes (result for index 5 has no waiter, result for index 6 has one), symbolic outcomes: stays decidable
/// whatever intermediate collections the body builds, because every length is concrete
#[kani::proof]
#[kani::unwind(2)]
pub fn c29_apply_results_unparked_entry_then_cas() {
    reset_recorders();
    let mut ls = mk_slice();
    ls.pending_write_apply.insert(6, sender(0));
    ls.pending_write_apply.insert(7, sender(1));
    let ok0: bool = kani::any();
    let ok1: bool = kani::any();
    let results = vec![ApplyResult { index: 5, succeeded: ok0 }, ApplyResult { index: 6, succeeded: ok1 }];
    let ctx = RaftContext::<CT> { _t: std::marker::PhantomData };
    let (tx, rx) = mpsc::unbounded_channel::<InternalEvent>();
    let out = ls.handle_apply_completed(6, results, &ctx, &tx);
    assert!(out.is_ok(), "C29:handle_apply_completed_failed");
    kani::cover!(ok0 != ok1, "outcomes_differ");
    let cnt = *SENT_COUNT.r();
    let what = *SENT_WHAT.r();
    assert!(cnt[0] == 1, "C29:applied_write_not_answered_exactly_once");
    let want = if ok1 { ClientResponse::WriteSuccess } else { ClientResponse::CasFailure };
    kani::cover!(what[0] != Some(want), "witness:C29:response_does_not_report_the_outcome_applied_at_its_own_entry");
    assert!(what[0] == Some(want), "C29:response_does_not_report_the_outcome_applied_at_its_own_entry");
    assert!(cnt[1] == 0, "C29:write_answered_without_its_apply_result");
    std::mem::forget(ls);
    std::mem::forget(rx);
    std::mem::forget(tx);
}
