//! C09 / C27: only CURRENT VOTER peers contribute a match index to the commit rule.
use super::*;
use crate::shim::SCell;

fn voter_filter(npeers: usize, ntargets: usize) {
    voter_filter_m(npeers, ntargets, false)
}
/// `concrete_membership`: peers 2,3,4 are exactly the replication targets, all Followers (ids and roles concrete), so the
/// number of match indexes handed over is concrete; the match indexes themselves stay symbolic.
fn voter_filter_m(npeers: usize, ntargets: usize, concrete_membership: bool) {
    let ids: [u32; 4] = kani::any();
    let vals: [u64; 4] = kani::any();
    // distinct peer ids (keys of a map)
    kani::assume(ids[0] != ids[1] && ids[0] != ids[2] && ids[0] != ids[3] && ids[1] != ids[2] && ids[1] != ids[3] && ids[2] != ids[3]);
    let mut ids = ids;
    let mut tid: [u32; 3] = kani::any();
    let mut trole: [i32; 3] = kani::any();
    if concrete_membership {
        ids = [2, 3, 4, 5];
        tid = [2, 3, 4];
        trole = [1, 1, 1];
    }
    kani::assume(tid[0] != tid[1] && tid[0] != tid[2] && tid[1] != tid[2]);
    let mut targets = crate::h_vec3(ntargets, |i| NodeMeta { id: tid[i], role: trole[i] });
    let commit: u64 = kani::any();
    let term: u64 = kani::any();
    let answer: Option<u64> = kani::any();
    let ls = LeaderSlice::<LT> {
        match_index: LMap { keys: ids, vals, n: npeers },
        cluster_metadata: ClusterMetadata { replication_targets: std::mem::take(&mut targets) },
        commit,
        term,
        _t: std::marker::PhantomData,
    };
    let log = Arc::new(RecLog { ids: SCell::new([0; 4]), n: SCell::new(0), calls: SCell::new(0), term_arg: SCell::new(0), commit_arg: SCell::new(0), answer });
    let got = ls.calculate_new_commit_index(&log);

    assert!(*log.calls.r() == 1, "C09:commit_rule_not_consulted_exactly_once");
    assert!(*log.term_arg.r() == term && *log.commit_arg.r() == commit, "C09:commit_rule_called_with_wrong_term_or_commit_index");
    // expected: the match indexes of exactly those peers that are replication targets with a non-learner role
    let learner = d_engine_proto::common::NodeRole::Learner as i32;
    let mut exp = [0u64; 4];
    let mut en = 0usize;
    let mut i = 0;
    while i < npeers {
        let mut voter = false;
        let mut j = 0;
        while j < ntargets {
            if tid[j] == ids[i] && trole[j] != learner {
                voter = true;
            }
            j += 1;
        }
        if voter {
            exp[en] = vals[i];
            en += 1;
        }
        i += 1;
    }
    kani::cover!(en < npeers || concrete_membership, "some_peer_is_excluded_or_membership_is_concrete");
    kani::cover!(en == npeers.min(ntargets) && en > 0, "as_many_peers_counted_as_possible");
    assert!(*log.n.r() == en, "C09:learner_or_removed_peer_counted_toward_commit_quorum");
    let rec = *log.ids.r();
    let mut k = 0;
    while k < 4 {
        if k < en {
            assert!(rec[k] == exp[k], "C09:wrong_match_index_handed_to_commit_rule");
        }
        k += 1;
    }
    // the commit index only moves forward
    match got {
        Some(x) => assert!(answer == Some(x) && x > commit, "C09:commit_index_not_advancing"),
        None => {} // not advancing is a liveness matter, not C09's
    }
    std::mem::forget(ls);
    std::mem::forget(log);
}
#[kani::proof]
#[kani::unwind(2)]
pub fn c09_voter_filter_2_peers_2_targets() {
    voter_filter(2, 2)
}
#[kani::proof]
#[kani::unwind(2)]
pub fn c09_voter_filter_3_peers_2_targets() {
    voter_filter(3, 2)
}
#[kani::proof]
#[kani::unwind(2)]
pub fn c09_voter_filter_3_peers_3_targets() {
    voter_filter(3, 3)
}
#[kani::proof]
#[kani::unwind(2)]
pub fn c09_voter_filter_4_peers_3_targets() {
    voter_filter(4, 3)
}
#[kani::proof]
#[kani::unwind(2)]
pub fn c09_voter_filter_all_voters_3_peers() {
    voter_filter_m(3, 3, true)
}
