//! Environment of the function slices `LeaderState::{drain_pending_client_writes, handle_apply_completed,
//! drain_pending_writes_with_error}` (gen_client.rs): the leader's bookkeeping of client write responses.
//! Containers are small array models with the std API subset the bodies use; a response sender RECORDS what is sent.
#![allow(dead_code, non_upper_case_globals, clippy::all)]
pub use crate::gen_leader::d_engine_proto::common::NodeRole::Leader;
pub use crate::shim::mpsc;
pub use crate::shim::{InternalEvent, Result};
use crate::shim::SCell;

pub const CCAP: usize = 3;
// ---- recording response senders --------------------------------------------------------------
pub const NSEND: usize = 4;
#[derive(Clone, Copy, Debug, PartialEq, Eq)]
pub enum ErrorCode {
    NotLeader,
    ProposeFailed,
    DeadlineExceeded,
}
#[derive(Clone, Copy, Debug, PartialEq, Eq)]
pub enum ClientResponse {
    WriteSuccess,
    CasFailure,
    ClientError(ErrorCode),
    ReadResults,
}
impl ClientResponse {
    pub fn write_success() -> Self {
        ClientResponse::WriteSuccess
    }
    pub fn cas_failure() -> Self {
        ClientResponse::CasFailure
    }
    pub fn client_error(code: ErrorCode) -> Self {
        ClientResponse::ClientError(code)
    }
}
#[derive(Debug)]
pub struct Status;
pub static SENT_COUNT: SCell<[u8; NSEND]> = SCell::new([0; NSEND]);
pub static SENT_WHAT: SCell<[Option<ClientResponse>; NSEND]> = SCell::new([None; NSEND]);
#[derive(Debug)]
pub struct MaybeCloneOneshotSender<T> {
    pub id: usize,
    pub _t: std::marker::PhantomData<fn(T)>,
}
impl MaybeCloneOneshotSender<std::result::Result<ClientResponse, Status>> {
    pub fn send(self, v: std::result::Result<ClientResponse, Status>) -> std::result::Result<(), ()> {
        let mut j = 0;
        while j < NSEND {
            if j == self.id {
                SENT_COUNT.m()[j] += 1;
                SENT_WHAT.m()[j] = match v {
                    Ok(r) => Some(r),
                    Err(_) => None,
                };
            }
            j += 1;
        }
        Ok(())
    }
}
pub type RespSender = MaybeCloneOneshotSender<std::result::Result<ClientResponse, Status>>;
pub fn sender(id: usize) -> RespSender {
    MaybeCloneOneshotSender { id, _t: std::marker::PhantomData }
}
// ---- time / metrics ---------------------------------------------------------------------------
#[derive(Clone, Copy, Debug)]
pub struct Instant;
impl Instant {
    pub fn elapsed(&self) -> std::time::Duration {
        std::time::Duration::from_millis(0)
    }
}
pub mod metrics {
    pub struct Histo;
    impl Histo {
        pub fn record(&self, _v: f64) {}
    }
    macro_rules! histogram {
        ($($t:tt)*) => {
            $crate::cshim::metrics::Histo
        };
    }
    pub(crate) use histogram;
}
// ---- data -------------------------------------------------------------------------------------
pub struct WriteMetadata {
    pub start_idx: u64,
    pub senders: Vec<RespSender>,
    pub wait_for_apply: bool,
    pub deadline: Instant,
}
pub struct ApplyResult {
    pub index: u64,
    pub succeeded: bool,
}
pub struct PendingReadBatch {
    pub requests: Vec<u8>,
}
pub struct RaftContext<T> {
    pub _t: std::marker::PhantomData<T>,
}
pub fn check_and_trigger_snapshot<T>(_last_index: u64, _role: i32, _term: u64, _ctx: &RaftContext<T>, _tx: &mpsc::UnboundedSender<InternalEvent>) -> Result<()> {
    Ok(())
}
// ---- BTreeMap model (ascending key order) -------------------------------------------------------
pub struct BTreeMap<K, V> {
    pub slots: [Option<(K, V)>; CCAP],
}
impl<K: Ord + Copy, V> Default for BTreeMap<K, V> {
    fn default() -> Self {
        Self::new()
    }
}
impl<K: Ord + Copy, V> BTreeMap<K, V> {
    pub fn new() -> Self {
        BTreeMap { slots: [None, None, None] }
    }
    pub fn insert(&mut self, k: K, v: V) -> Option<V> {
        let mut i = 0;
        while i < CCAP {
            if self.slots[i].is_none() {
                self.slots[i] = Some((k, v));
                return None;
            }
            i += 1;
        }
        panic!("shim capacity: BTreeMap model (cshim) holds at most CCAP entries");
    }
    pub fn len(&self) -> usize {
        let mut n = 0;
        let mut i = 0;
        while i < CCAP {
            if self.slots[i].is_some() {
                n += 1;
            }
            i += 1;
        }
        n
    }
    pub fn contains_key(&self, k: &K) -> bool {
        let mut i = 0;
        while i < CCAP {
            if let Some((kk, _)) = &self.slots[i] {
                if *kk == *k {
                    return true;
                }
            }
            i += 1;
        }
        false
    }
    pub fn remove(&mut self, k: &K) -> Option<V> {
        let mut i = 0;
        while i < CCAP {
            let hit = match &self.slots[i] {
                Some((kk, _)) => *kk == *k,
                None => false,
            };
            if hit {
                return self.slots[i].take().map(|(_, v)| v);
            }
            i += 1;
        }
        None
    }
    /// keys >= `at` move to the returned map
    pub fn split_off(&mut self, at: &K) -> BTreeMap<K, V> {
        let mut out = BTreeMap::new();
        let mut i = 0;
        while i < CCAP {
            let mv = match &self.slots[i] {
                Some((kk, _)) => *kk >= *at,
                None => false,
            };
            if mv {
                out.slots[i] = self.slots[i].take();
            }
            i += 1;
        }
        out
    }
    pub fn range(&self, r: std::ops::RangeToInclusive<K>) -> BtRange<'_, K, V> {
        BtRange { m: self, hi: r.end, last: None }
    }
}
pub struct BtRange<'a, K, V> {
    m: &'a BTreeMap<K, V>,
    hi: K,
    last: Option<K>,
}
impl<'a, K: Ord + Copy, V> Iterator for BtRange<'a, K, V> {
    type Item = (&'a K, &'a V);
    fn next(&mut self) -> Option<Self::Item> {
        let mut best: Option<usize> = None;
        let mut i = 0;
        while i < CCAP {
            if let Some((k, _)) = &self.m.slots[i] {
                let above = match self.last {
                    Some(l) => *k > l,
                    None => true,
                };
                if above && *k <= self.hi {
                    let better = match best {
                        None => true,
                        Some(b) => *k < self.m.slots[b].as_ref().unwrap().0,
                    };
                    if better {
                        best = Some(i);
                    }
                }
            }
            i += 1;
        }
        let b = best?;
        let (k, v) = self.m.slots[b].as_ref().unwrap();
        self.last = Some(*k);
        Some((k, v))
    }
}
pub struct BtIntoIter<K, V> {
    slots: [Option<(K, V)>; CCAP],
}
impl<K: Ord + Copy, V> IntoIterator for BTreeMap<K, V> {
    type Item = (K, V);
    type IntoIter = BtIntoIter<K, V>;
    fn into_iter(self) -> Self::IntoIter {
        BtIntoIter { slots: self.slots }
    }
}
impl<K: Ord + Copy, V> Iterator for BtIntoIter<K, V> {
    type Item = (K, V);
    fn next(&mut self) -> Option<(K, V)> {
        // smallest remaining key first
        let mut best: Option<usize> = None;
        let mut i = 0;
        while i < CCAP {
            if let Some((k, _)) = &self.slots[i] {
                let better = match best {
                    None => true,
                    Some(b) => *k < self.slots[b].as_ref().unwrap().0,
                };
                if better {
                    best = Some(i);
                }
            }
            i += 1;
        }
        match best {
            Some(b) => self.slots[b].take(),
            None => None,
        }
    }
}
// ---- HashMap model ------------------------------------------------------------------------------
pub struct HashMap<K, V> {
    pub slots: [Option<(K, V)>; NSEND],
}
impl<K: Eq + Copy, V> HashMap<K, V> {
    pub fn new() -> Self {
        HashMap { slots: [None, None, None, None] }
    }
    fn find(&self, k: &K) -> Option<usize> {
        let mut i = 0;
        while i < NSEND {
            if let Some((kk, _)) = &self.slots[i] {
                if *kk == *k {
                    return Some(i);
                }
            }
            i += 1;
        }
        None
    }
    pub fn get(&self, k: &K) -> Option<&V> {
        match self.find(k) {
            Some(i) => self.slots[i].as_ref().map(|(_, v)| v),
            None => None,
        }
    }
    pub fn insert(&mut self, k: K, v: V) -> Option<V> {
        if let Some(i) = self.find(&k) {
            return self.slots[i].replace((k, v)).map(|(_, o)| o);
        }
        let mut i = 0;
        while i < NSEND {
            if self.slots[i].is_none() {
                self.slots[i] = Some((k, v));
                return None;
            }
            i += 1;
        }
        panic!("shim capacity: HashMap model (cshim) holds at most NSEND entries");
    }
    pub fn remove(&mut self, k: &K) -> Option<V> {
        match self.find(k) {
            Some(i) => self.slots[i].take().map(|(_, v)| v),
            None => None,
        }
    }
    pub fn clear(&mut self) {
        let mut i = 0;
        while i < NSEND {
            self.slots[i] = None;
            i += 1;
        }
    }
    pub fn len(&self) -> usize {
        let mut n = 0;
        let mut i = 0;
        while i < NSEND {
            if self.slots[i].is_some() {
                n += 1;
            }
            i += 1;
        }
        n
    }
}
// ---- the leader fields the three bodies touch -----------------------------------------------------
pub struct ClientSlice<T> {
    pub pending_client_writes: BTreeMap<u64, WriteMetadata>,
    pub pending_write_apply: HashMap<u64, RespSender>,
    pub write_propose_times: HashMap<u64, Instant>,
    pub pending_reads: BTreeMap<u64, PendingReadBatch>,
    pub term: u64,
    pub reads_executed: u32,
    pub _t: std::marker::PhantomData<T>,
}
impl<T> ClientSlice<T> {
    pub fn node_id(&self) -> u32 {
        1
    }
    pub fn current_term(&self) -> u64 {
        self.term
    }
    pub fn execute_pending_reads(&self, _batch: Vec<u8>, _ctx: &RaftContext<T>) {}
}
pub struct CT;
