//! Shadow build of d-engine-core/src/storage/buffered_raft_log.rs (Engine S): the REAL source text of the file,
//! regenerated from /repo by gen.py on every run, compiled against the bounded models in `shim`.
#![allow(dead_code, unused_macros, clippy::all)]

// Textual-scope macros: shadow `tracing::{debug,warn,error}` (no subscriber: no observable effect) and
// `format!` (message text only ever ends up inside error values the harnesses do not inspect).
macro_rules! debug { ($($t:tt)*) => {{}}; }
macro_rules! trace { ($($t:tt)*) => {{}}; }
macro_rules! warn { ($($t:tt)*) => {{}}; }
macro_rules! error { ($($t:tt)*) => {{}}; }
macro_rules! format { ($($t:tt)*) => { String::new() }; }

pub mod shim_consts {
    /// Bound (rewrite R3): capacity of the historical term-segment array (1024 in the real build). With 3, the
    /// "array full" overflow path is reachable inside the harness bounds.
    pub const MAX_TERM_SEGMENTS: usize = 3;
}
pub mod shim;
pub mod gen_brl;
pub mod lshim;
pub mod gen_leader;
pub mod rshim;
pub mod gen_repl;
pub mod fshim;
pub mod gen_follower;
pub mod cshim;
pub mod gen_client;
pub mod mshim;
pub mod gen_merge;

/// exact-size Vec of 0..=3 elements (no push: see DESIGN 2b)
pub fn h_vec3<T>(n: usize, mut f: impl FnMut(usize) -> T) -> Vec<T> {
    match n {
        0 => Vec::new(),
        1 => vec![f(0)],
        2 => vec![f(0), f(1)],
        3 => vec![f(0), f(1), f(2)],
        _ => panic!("h_vec3: more than 3 elements"),
    }
}
#[cfg(kani)]
mod h_shim;
#[cfg(all(kani, test))]
mod playback_gen;
#[cfg(all(kani, test))]
mod native_diff;
