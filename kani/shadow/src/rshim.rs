//! Environment of the function slice `ReplicationHandler::retrieve_to_be_synced_logs_for_peers` (gen_repl.rs).
#![allow(dead_code, clippy::all)]
pub use crate::shim::{Entry, Result, ScopedTimer};
use crate::shim::SCell;
pub use std::sync::Arc;

pub const RCAP: usize = 2;
/// insertion-ordered array map standing in for std::collections::HashMap (only the operations the slice uses)
pub struct HashMap<K, V> {
    pub slots: [Option<(K, V)>; RCAP],
    pub n: usize,
}
impl<K: Eq + Copy, V> HashMap<K, V> {
    pub fn new() -> Self {
        HashMap { slots: [None, None], n: 0 }
    }
    pub fn with_capacity(_n: usize) -> Self {
        Self::new()
    }
    pub fn len(&self) -> usize {
        self.n
    }
    pub fn insert(&mut self, k: K, v: V) -> Option<V> {
        if self.n >= RCAP {
            panic!("shim capacity: HashMap model (rshim) holds at most RCAP entries");
        }
        self.slots[self.n] = Some((k, v));
        self.n += 1;
        None
    }
    pub fn get(&self, k: &K) -> Option<&V> {
        let mut i = 0;
        while i < RCAP {
            if let Some((kk, v)) = &self.slots[i] {
                if *kk == *k {
                    return Some(v);
                }
            }
            i += 1;
        }
        None
    }
}
pub struct HmIter<'a, K, V> {
    m: &'a HashMap<K, V>,
    i: usize,
}
impl<'a, K, V> IntoIterator for &'a HashMap<K, V> {
    type Item = (&'a K, &'a V);
    type IntoIter = HmIter<'a, K, V>;
    fn into_iter(self) -> HmIter<'a, K, V> {
        HmIter { m: self, i: 0 }
    }
}
impl<'a, K, V> Iterator for HmIter<'a, K, V> {
    type Item = (&'a K, &'a V);
    fn next(&mut self) -> Option<Self::Item> {
        while self.i < RCAP {
            let i = self.i;
            self.i += 1;
            if let Some((k, v)) = &self.m.slots[i] {
                return Some((k, v));
            }
        }
        None
    }
}
pub trait RCfg {
    type R: RLog;
}
pub type ROF<T> = <T as RCfg>::R;
pub trait RLog {
    fn get_entries_range(&self, range: std::ops::RangeInclusive<u64>) -> Result<Vec<Entry>>;
}
pub struct ReplSlice<T> {
    pub my_id: u32,
    pub _t: std::marker::PhantomData<T>,
}
/// Leader log model: entries 1..=last_before (term 1) plus the `nnew` entries the leader has just appended
/// (term 2) -- prepare_batch_requests writes the new entries to the log BEFORE the per-peer selection runs, so a
/// range read reaching past `last_before` does return them.  Range reads return exactly the requested entries.
pub struct RangeLog {
    pub last_before: u64,
    pub nnew: u64,
    pub asked: SCell<u32>,
}
impl RLog for RangeLog {
    fn get_entries_range(&self, range: std::ops::RangeInclusive<u64>) -> Result<Vec<Entry>> {
        *self.asked.m() += 1;
        let a = *range.start();
        let b = (*range.end()).min(self.last_before + self.nnew);
        let lb = self.last_before;
        let mk = |i: u64| if i > lb { Entry { index: i, term: 2, payload: 1 } } else { Entry { index: i, term: 1, payload: 0 } };
        if a == 0 || a > b {
            return Ok(Vec::new());
        }
        Ok(match b - a {
            0 => vec![mk(a)],
            1 => vec![mk(a), mk(a + 1)],
            _ => panic!("RangeLog: more than two legacy entries requested (harness bound)"),
        })
    }
}
pub struct RT;
impl RCfg for RT {
    type R = RangeLog;
}
