//! Environment of the shadow build of `d-engine-core/src/storage/buffered_raft_log.rs`.
//!
//! The file under test is compiled VERBATIM (see gen.py for the four mechanical rewrites) against the names
//! defined here instead of against crossbeam / tokio::sync / the rest of d-engine-core.  Everything in this
//! module is a MODEL and part of the claim:
//!
//! * `SkipMap<K, V>`   — ordered map with crossbeam-skiplist's `&self` API over `CAP` slots (linear scans);
//!                        exceeding `CAP` panics ("shim capacity"), i.e. fails the harness instead of pruning.
//! * `HashMap<K, V>`   — insertion-ordered array map (`entry().or_insert()`, by-value iteration).
//! * `mpsc`, `oneshot`, `Notify` — single-threaded channels; the harness plays the IO thread by receiving the
//!                        `IOTask`s and answering them through the REAL `handle_non_write_cmd`.
//! * `Entry { index, term, payload: u8 }`, `LogId`, `Error`, `NetworkError`, `HardState`, `PersistenceConfig`,
//!   `FlushPolicy`, `InternalEvent`, `ScopedTimer` — structural stand-ins (only the fields the file touches).
//! * `TypeConfig` / `StorageEngine` / `LogStore` / `MetaStore` — the subset of the trait surface the file calls.
#![allow(dead_code, clippy::all)]
use std::cell::UnsafeCell;
use std::future::Future;
use std::ops::{Bound, RangeBounds};
use std::pin::Pin;
pub use std::sync::Arc;
use std::task::{Context, Poll};

pub const CAP: usize = 5;

// ------------------------------------------------------------------------------------------------
// plain data
// ------------------------------------------------------------------------------------------------
#[derive(Clone, Debug, PartialEq, Eq)]
pub struct Entry {
    pub index: u64,
    pub term: u64,
    pub payload: u8,
}
#[derive(Clone, Copy, Debug, PartialEq, Eq)]
pub struct LogId {
    pub term: u64,
    pub index: u64,
}
#[derive(Clone, Debug, PartialEq, Eq)]
pub struct HardState {
    pub current_term: u64,
    pub voted_for: Option<u32>,
}
#[derive(Debug)]
pub enum NetworkError {
    SingalSendFailed(String),
}
#[derive(Debug)]
pub enum Error {
    Fatal(String),
    Network(NetworkError),
}
impl From<NetworkError> for Error {
    fn from(e: NetworkError) -> Self {
        Error::Network(e)
    }
}
pub type Result<T> = std::result::Result<T, Error>;

#[derive(Debug)]
pub enum InternalEvent {
    LogFlushed { durable_index: u64 },
}
#[derive(Clone, Copy, Debug)]
pub enum PersistenceStrategy {
    MemFirst,
}
#[derive(Clone, Copy, Debug)]
pub enum FlushPolicy {
    Batch { idle_flush_interval_ms: u64 },
}
#[derive(Clone, Copy, Debug)]
pub struct PersistenceConfig {
    pub strategy: PersistenceStrategy,
    pub flush_policy: FlushPolicy,
}
pub struct ScopedTimer;
impl ScopedTimer {
    #[inline(always)]
    pub fn new(_name: &'static str) -> Self {
        ScopedTimer
    }
}

// ------------------------------------------------------------------------------------------------
// trait surface
// ------------------------------------------------------------------------------------------------
pub trait TypeConfig: Send + Sync + 'static {
    type SE: StorageEngine;
}
pub type SOF<T> = <T as TypeConfig>::SE;
pub trait StorageEngine: Send + Sync + 'static {
    type LogStore: LogStore;
    type MetaStore: MetaStore;
    fn log_store(&self) -> Arc<Self::LogStore>;
    fn meta_store(&self) -> Arc<Self::MetaStore>;
}
pub trait LogStore: Send + Sync + 'static {
    fn last_index(&self) -> u64;
    fn get_entries(&self, range: std::ops::RangeInclusive<u64>) -> Result<Vec<Entry>>;
    fn load_purge_boundary(&self) -> Result<Option<LogId>>;
    fn is_write_durable(&self) -> bool;
    fn flush(&self) -> Result<()>;
    fn persist_entries(&self, entries: Vec<Entry>) -> impl Future<Output = Result<()>>;
    fn replace_range(&self, truncate_from: u64, new_entries: Vec<Entry>) -> impl Future<Output = Result<()>>;
    fn purge(&self, cutoff: LogId) -> impl Future<Output = Result<()>>;
    fn reset(&self) -> impl Future<Output = Result<()>>;
}
pub trait MetaStore: Send + Sync + 'static {
    fn load_hard_state(&self) -> Result<Option<HardState>>;
    fn save_hard_state(&self, hs: &HardState) -> Result<()>;
    fn flush(&self) -> Result<()>;
}

// ------------------------------------------------------------------------------------------------
// single-threaded cell
// ------------------------------------------------------------------------------------------------
pub struct SCell<T>(UnsafeCell<T>);
unsafe impl<T> Sync for SCell<T> {}
unsafe impl<T> Send for SCell<T> {}
impl<T> SCell<T> {
    pub const fn new(v: T) -> Self {
        SCell(UnsafeCell::new(v))
    }
    #[allow(clippy::mut_from_ref)]
    pub fn m(&self) -> &mut T {
        unsafe { &mut *self.0.get() }
    }
    pub fn r(&self) -> &T {
        unsafe { &*self.0.get() }
    }
}

// ------------------------------------------------------------------------------------------------
// SkipMap model: struct-of-arrays over primitive slots, first-free-slot allocation, linear scans.
// (Measured alternatives: arrays of Option<(K,V)> are unions for CBMC, 2-3x more variables; a direct-mapped table
// indexed by the key is 10x WORSE when the key is symbolic -- the slot number becomes symbolic -- whereas here the
// slot numbers stay concrete as long as the occupancy pattern is.)  Exceeding CAP panics: fails the harness.
// ------------------------------------------------------------------------------------------------
pub trait ShimDefault {
    fn shim_default() -> Self;
}
impl ShimDefault for std::sync::atomic::AtomicU64 {
    fn shim_default() -> Self {
        std::sync::atomic::AtomicU64::new(0)
    }
}
impl ShimDefault for Entry {
    fn shim_default() -> Self {
        Entry { index: 0, term: 0, payload: 0 }
    }
}
pub struct SkInner<K, V> {
    used: [bool; CAP],
    keys: [K; CAP],
    vals: [V; CAP],
}
pub struct SkipMap<K, V> {
    s: SCell<SkInner<K, V>>,
}
pub struct SkEntry<'a, K, V> {
    k: &'a K,
    v: &'a V,
}
impl<'a, K, V> SkEntry<'a, K, V> {
    pub fn key(&self) -> &'a K {
        self.k
    }
    pub fn value(&self) -> &'a V {
        self.v
    }
}
#[inline(always)]
fn in_bounds<K: Ord + Copy>(k: K, lo: Bound<K>, hi: Bound<K>) -> bool {
    let ok_lo = match lo {
        Bound::Included(l) => k >= l,
        Bound::Excluded(l) => k > l,
        Bound::Unbounded => true,
    };
    let ok_hi = match hi {
        Bound::Included(h) => k <= h,
        Bound::Excluded(h) => k < h,
        Bound::Unbounded => true,
    };
    ok_lo && ok_hi
}
impl<K: Ord + Copy + Default, V: ShimDefault> SkipMap<K, V> {
    pub fn new() -> Self {
        SkipMap {
            s: SCell::new(SkInner {
                used: [false; CAP],
                keys: [K::default(); CAP],
                vals: std::array::from_fn(|_| V::shim_default()),
            }),
        }
    }
    fn slot_of(&self, k: &K) -> Option<usize> {
        let s = self.s.r();
        let mut i = 0;
        while i < CAP {
            if s.used[i] && s.keys[i] == *k {
                return Some(i);
            }
            i += 1;
        }
        None
    }
    fn entry_at(&self, i: usize) -> SkEntry<'_, K, V> {
        let s = self.s.r();
        SkEntry { k: &s.keys[i], v: &s.vals[i] }
    }
    pub fn get(&self, k: &K) -> Option<SkEntry<'_, K, V>> {
        match self.slot_of(k) {
            Some(i) => Some(self.entry_at(i)),
            None => None,
        }
    }
    fn put_at(&self, i: usize, k: K, v: V) {
        let s = self.s.m();
        s.used[i] = true;
        s.keys[i] = k;
        s.vals[i] = v;
    }
    /// crossbeam: an existing entry with the same key is removed first.
    pub fn insert(&self, k: K, v: V) -> SkEntry<'_, K, V> {
        let i = match self.slot_of(&k) {
            Some(i) => i,
            None => self.free_slot(),
        };
        self.put_at(i, k, v);
        self.entry_at(i)
    }
    pub fn get_or_insert(&self, k: K, v: V) -> SkEntry<'_, K, V> {
        match self.slot_of(&k) {
            Some(i) => self.entry_at(i),
            None => {
                let i = self.free_slot();
                self.put_at(i, k, v);
                self.entry_at(i)
            }
        }
    }
    fn free_slot(&self) -> usize {
        let s = self.s.r();
        let mut i = 0;
        while i < CAP {
            if !s.used[i] {
                return i;
            }
            i += 1;
        }
        panic!("shim capacity: SkipMap model holds at most CAP entries");
    }
    pub fn remove(&self, k: &K) -> Option<K> {
        match self.slot_of(k) {
            Some(i) => {
                self.s.m().used[i] = false;
                Some(*k)
            }
            None => None,
        }
    }
    pub fn clear(&self) {
        self.s.m().used = [false; CAP];
    }
    pub fn len(&self) -> usize {
        let s = self.s.r();
        let mut n = 0;
        let mut i = 0;
        while i < CAP {
            if s.used[i] {
                n += 1;
            }
            i += 1;
        }
        n
    }
    pub fn is_empty(&self) -> bool {
        self.len() == 0
    }
    /// slot of the smallest key inside the bounds
    fn next_up(&self, lo: Bound<K>, hi: Bound<K>) -> Option<usize> {
        let s = self.s.r();
        let mut found = false;
        let mut best = 0usize;
        let mut bestk = K::default();
        let mut i = 0;
        while i < CAP {
            if s.used[i] && in_bounds(s.keys[i], lo, hi) && (!found || s.keys[i] < bestk) {
                found = true;
                best = i;
                bestk = s.keys[i];
            }
            i += 1;
        }
        if found { Some(best) } else { None }
    }
    fn next_down(&self, lo: Bound<K>, hi: Bound<K>) -> Option<usize> {
        let s = self.s.r();
        let mut found = false;
        let mut best = 0usize;
        let mut bestk = K::default();
        let mut i = 0;
        while i < CAP {
            if s.used[i] && in_bounds(s.keys[i], lo, hi) && (!found || s.keys[i] > bestk) {
                found = true;
                best = i;
                bestk = s.keys[i];
            }
            i += 1;
        }
        if found { Some(best) } else { None }
    }
    pub fn front(&self) -> Option<SkEntry<'_, K, V>> {
        self.next_up(Bound::Unbounded, Bound::Unbounded).map(|i| self.entry_at(i))
    }
    pub fn back(&self) -> Option<SkEntry<'_, K, V>> {
        self.next_down(Bound::Unbounded, Bound::Unbounded).map(|i| self.entry_at(i))
    }
    pub fn iter(&self) -> SkIter<'_, K, V> {
        SkIter { m: self, lo: Bound::Unbounded, hi: Bound::Unbounded }
    }
    pub fn range<R: RangeBounds<K>>(&self, r: R) -> SkIter<'_, K, V> {
        SkIter { m: self, lo: r.start_bound().cloned(), hi: r.end_bound().cloned() }
    }
}
/// Ordered cursor; robust against insert/remove between calls (like crossbeam's iterators it re-seeks by key).
pub struct SkIter<'a, K, V> {
    m: &'a SkipMap<K, V>,
    lo: Bound<K>,
    hi: Bound<K>,
}
impl<'a, K: Ord + Copy + Default, V: ShimDefault> Iterator for SkIter<'a, K, V> {
    type Item = SkEntry<'a, K, V>;
    fn next(&mut self) -> Option<Self::Item> {
        let i = self.m.next_up(self.lo, self.hi)?;
        let e = self.m.entry_at(i);
        self.lo = Bound::Excluded(*e.k);
        Some(e)
    }
}
impl<'a, K: Ord + Copy + Default, V: ShimDefault> DoubleEndedIterator for SkIter<'a, K, V> {
    fn next_back(&mut self) -> Option<Self::Item> {
        let i = self.m.next_down(self.lo, self.hi)?;
        let e = self.m.entry_at(i);
        self.hi = Bound::Excluded(*e.k);
        Some(e)
    }
}

// ------------------------------------------------------------------------------------------------
// HashMap model (insertion ordered)
// ------------------------------------------------------------------------------------------------
pub struct HashMap<K, V> {
    slots: [Option<(K, V)>; CAP],
    n: usize,
}
pub struct HmEntry<'a, K, V> {
    m: &'a mut HashMap<K, V>,
    k: K,
}
impl<K: Eq + Copy, V> HashMap<K, V> {
    pub fn new() -> Self {
        HashMap { slots: std::array::from_fn(|_| None), n: 0 }
    }
    pub fn entry(&mut self, k: K) -> HmEntry<'_, K, V> {
        HmEntry { m: self, k }
    }
}
impl<'a, K: Eq + Copy, V> HmEntry<'a, K, V> {
    pub fn or_insert(self, v: V) -> &'a mut V {
        let mut i = 0;
        let mut found = None;
        while i < self.m.n {
            if self.m.slots[i].as_ref().unwrap().0 == self.k {
                found = Some(i);
            }
            i += 1;
        }
        let at = match found {
            Some(i) => i,
            None => {
                if self.m.n >= CAP {
                    panic!("shim capacity: HashMap model holds at most CAP entries");
                }
                let at = self.m.n;
                self.m.slots[at] = Some((self.k, v));
                self.m.n += 1;
                at
            }
        };
        &mut self.m.slots[at].as_mut().unwrap().1
    }
}
pub struct HmIntoIter<K, V> {
    slots: [Option<(K, V)>; CAP],
    i: usize,
    n: usize,
}
impl<K, V> IntoIterator for HashMap<K, V> {
    type Item = (K, V);
    type IntoIter = HmIntoIter<K, V>;
    fn into_iter(self) -> Self::IntoIter {
        HmIntoIter { slots: self.slots, i: 0, n: self.n }
    }
}
impl<K, V> Iterator for HmIntoIter<K, V> {
    type Item = (K, V);
    fn next(&mut self) -> Option<(K, V)> {
        if self.i >= self.n {
            return None;
        }
        let v = self.slots[self.i].take();
        self.i += 1;
        v
    }
}

// ------------------------------------------------------------------------------------------------
// channels.  The shared state lives in TYPED STATICS (one queue per message type, a small pool of oneshot cells per
// payload type): a heap cell (Arc) is an untyped byte array for CBMC, the Pending/Ready decision read back from it is
// no longer a constant, and every poll round of every operation gets explored (measured: 2.9M vs 0.3M variables for
// one purge).  Consequence, stated: ONE log instance per harness.
// ------------------------------------------------------------------------------------------------
pub const QCAP: usize = 3;
pub const OCAP: usize = 4;
pub mod mpsc {
    use super::*;
    pub struct MpscState<T> {
        pub q: [Option<T>; QCAP],
        pub rx_closed: bool,
    }
    pub trait MpscPooled: Sized + 'static {
        fn state() -> &'static SCell<MpscState<Self>>;
        /// Model hook: `None` = the receiving side consumed the message at send time.
        fn intercept(v: Self) -> Option<Self> {
            Some(v)
        }
    }
    /// When set, the model IO thread acknowledges every control task at the moment it is sent (it runs "infinitely
    /// fast"): the caller's `done_rx.await` is then ready at its first poll and no future is ever suspended.
    /// (A suspended-and-resumed nested future makes CBMC re-explore every state of every level; measured: out of
    /// memory for ONE conflict-append.)  The IO thread never touches the in-memory state the C19/C04/C09 harnesses
    /// observe, so this scheduling choice does not restrict what they decide.
    pub static IO_AUTO_ACK: SCell<bool> = SCell::new(false);
    pub static IO_ACKED: SCell<[u32; 4]> = SCell::new([0; 4]);
    pub fn io_ack(cmd: crate::gen_brl::IOTask) {
        use crate::gen_brl::IOTask;
        match cmd {
            IOTask::ReplaceRange { done, new_entries, .. } => {
                std::mem::forget(new_entries);
                IO_ACKED.m()[0] += 1;
                let _ = done.send(Ok(()));
            }
            IOTask::Purge { done, .. } => {
                IO_ACKED.m()[1] += 1;
                let _ = done.send(());
            }
            IOTask::Reset { done } => {
                IO_ACKED.m()[2] += 1;
                let _ = done.send(Ok(()));
            }
            IOTask::Flush(done) => {
                IO_ACKED.m()[3] += 1;
                let _ = done.send(Ok(()));
            }
            IOTask::Shutdown => {}
        }
    }
    pub struct UnboundedSender<T>(pub std::marker::PhantomData<fn(T)>);
    pub struct UnboundedReceiver<T>(pub std::marker::PhantomData<fn(T)>);
    impl<T> Clone for UnboundedSender<T> {
        fn clone(&self) -> Self {
            UnboundedSender(std::marker::PhantomData)
        }
    }
    impl<T> std::fmt::Debug for UnboundedSender<T> {
        fn fmt(&self, f: &mut std::fmt::Formatter<'_>) -> std::fmt::Result {
            f.write_str("UnboundedSender")
        }
    }
    pub mod error {
        #[derive(Debug)]
        pub struct SendError<T>(pub T);
        #[derive(Debug)]
        pub enum TryRecvError {
            Empty,
            Disconnected,
        }
    }
    pub fn unbounded_channel<T: MpscPooled>() -> (UnboundedSender<T>, UnboundedReceiver<T>) {
        (UnboundedSender(std::marker::PhantomData), UnboundedReceiver(std::marker::PhantomData))
    }
    impl<T: MpscPooled> UnboundedSender<T> {
        pub fn send(&self, v: T) -> std::result::Result<(), error::SendError<T>> {
            let st = T::state().m();
            if st.rx_closed {
                return Err(error::SendError(v));
            }
            let v = match T::intercept(v) {
                Some(v) => v,
                None => return Ok(()),
            };
            let mut i = 0;
            while i < QCAP {
                if st.q[i].is_none() {
                    st.q[i] = Some(v);
                    return Ok(());
                }
                i += 1;
            }
            panic!("shim capacity: mpsc model queue full");
        }
    }
    impl<T: MpscPooled> UnboundedReceiver<T> {
        pub fn try_recv(&mut self) -> std::result::Result<T, error::TryRecvError> {
            let st = T::state().m();
            match st.q[0].take() {
                None => Err(error::TryRecvError::Empty),
                Some(v) => {
                    let mut i = 1;
                    while i < QCAP {
                        st.q[i - 1] = st.q[i].take();
                        i += 1;
                    }
                    Ok(v)
                }
            }
        }
        pub fn len(&self) -> usize {
            let st = T::state().r();
            let mut n = 0;
            let mut i = 0;
            while i < QCAP {
                if st.q[i].is_some() {
                    n += 1;
                }
                i += 1;
            }
            n
        }
        pub async fn recv(&mut self) -> Option<T> {
            RecvFut(self).await
        }
    }
    struct RecvFut<'a, T>(&'a mut UnboundedReceiver<T>);
    impl<'a, T: MpscPooled> Future for RecvFut<'a, T> {
        type Output = Option<T>;
        fn poll(mut self: Pin<&mut Self>, _cx: &mut Context<'_>) -> Poll<Option<T>> {
            match self.0.try_recv() {
                Ok(v) => Poll::Ready(Some(v)),
                Err(_) => Poll::Pending,
            }
        }
    }
    impl MpscPooled for crate::gen_brl::IOTask {
        fn state() -> &'static SCell<MpscState<Self>> {
            static S: SCell<MpscState<crate::gen_brl::IOTask>> = SCell::new(MpscState { q: [None, None, None], rx_closed: false });
            &S
        }
        fn intercept(v: Self) -> Option<Self> {
            if *IO_AUTO_ACK.r() {
                io_ack(v);
                None
            } else {
                Some(v)
            }
        }
    }
    impl MpscPooled for InternalEvent {
        fn state() -> &'static SCell<MpscState<Self>> {
            static S: SCell<MpscState<InternalEvent>> = SCell::new(MpscState { q: [None, None, None], rx_closed: false });
            &S
        }
    }
}
pub mod oneshot {
    use super::*;
    pub struct Cell1<T> {
        pub v: Option<T>,
        pub tx_gone: bool,
        pub live: bool,
    }
    pub struct OneState<T> {
        pub cells: [Cell1<T>; OCAP],
        pub next: usize,
    }
    pub trait OneshotPooled: Sized + 'static {
        fn state() -> &'static SCell<OneState<Self>>;
    }
    pub struct Sender<T: OneshotPooled>(pub usize, pub std::marker::PhantomData<fn(T)>);
    pub struct Receiver<T: OneshotPooled>(pub usize, pub std::marker::PhantomData<fn(T)>);
    pub mod error {
        #[derive(Debug)]
        pub struct RecvError;
    }
    impl<T: OneshotPooled> std::fmt::Debug for Sender<T> {
        fn fmt(&self, f: &mut std::fmt::Formatter<'_>) -> std::fmt::Result {
            f.write_str("oneshot::Sender")
        }
    }
    pub fn channel<T: OneshotPooled>() -> (Sender<T>, Receiver<T>) {
        let st = T::state().m();
        let i = st.next;
        if i >= OCAP {
            panic!("shim capacity: oneshot model pool exhausted");
        }
        st.next = i + 1;
        st.cells[i].live = true;
        (Sender(i, std::marker::PhantomData), Receiver(i, std::marker::PhantomData))
    }
    impl<T: OneshotPooled> Sender<T> {
        pub fn send(self, v: T) -> std::result::Result<(), T> {
            T::state().m().cells[self.0].v = Some(v);
            Ok(())
        }
    }
    impl<T: OneshotPooled> Drop for Sender<T> {
        fn drop(&mut self) {
            T::state().m().cells[self.0].tx_gone = true;
        }
    }
    impl<T: OneshotPooled> Future for Receiver<T> {
        type Output = std::result::Result<T, error::RecvError>;
        fn poll(self: Pin<&mut Self>, _cx: &mut Context<'_>) -> Poll<Self::Output> {
            let c = &mut T::state().m().cells[self.0];
            if let Some(v) = c.v.take() {
                return Poll::Ready(Ok(v));
            }
            if c.tx_gone {
                return Poll::Ready(Err(error::RecvError));
            }
            Poll::Pending
        }
    }
    const fn cell<T>() -> Cell1<T> {
        Cell1 { v: None, tx_gone: false, live: false }
    }
    impl OneshotPooled for () {
        fn state() -> &'static SCell<OneState<Self>> {
            static S: SCell<OneState<()>> = SCell::new(OneState { cells: [cell(), cell(), cell(), cell()], next: 0 });
            &S
        }
    }
    impl OneshotPooled for Result<()> {
        fn state() -> &'static SCell<OneState<Self>> {
            static S: SCell<OneState<Result<()>>> = SCell::new(OneState { cells: [cell(), cell(), cell(), cell()], next: 0 });
            &S
        }
    }
}
/// R6: what `.await` becomes in the de-sugared caller-side functions.
pub trait ShimNow {
    type Out;
    fn shim_now(self) -> Self::Out;
}
impl<T, E> ShimNow for std::result::Result<T, E> {
    type Out = std::result::Result<T, E>;
    #[inline(always)]
    fn shim_now(self) -> Self::Out {
        self
    }
}
impl<T: oneshot::OneshotPooled> ShimNow for oneshot::Receiver<T> {
    type Out = std::result::Result<T, oneshot::error::RecvError>;
    fn shim_now(self) -> Self::Out {
        let c = &mut T::state().m().cells[self.0];
        if let Some(v) = c.v.take() {
            return Ok(v);
        }
        if c.tx_gone {
            return Err(oneshot::error::RecvError);
        }
        panic!("shim: await would suspend (the model IO thread has not replied)");
    }
}
/// native sanity runs only (native_diff.rs): the statics behind the channel models have a small capacity
pub fn reset_pools_for_native_tests() {
    use oneshot::OneshotPooled;
    <() as OneshotPooled>::state().m().next = 0;
    <Result<()> as OneshotPooled>::state().m().next = 0;
    let st = <crate::gen_brl::IOTask as mpsc::MpscPooled>::state().m();
    st.q = [None, None, None];
    st.rx_closed = false;
}
pub struct Notify {
    pub permits: SCell<u32>,
}
impl Notify {
    pub fn new() -> Self {
        Notify { permits: SCell::new(0) }
    }
    /// tokio: stores at most one permit.
    pub fn notify_one(&self) {
        *self.permits.m() = 1;
    }
    pub async fn notified(&self) {
        NotifiedFut(self).await
    }
}
struct NotifiedFut<'a>(&'a Notify);
impl<'a> Future for NotifiedFut<'a> {
    type Output = ();
    fn poll(self: Pin<&mut Self>, _cx: &mut Context<'_>) -> Poll<()> {
        if *self.0.permits.r() > 0 {
            *self.0.permits.m() = 0;
            Poll::Ready(())
        } else {
            Poll::Pending
        }
    }
}

// ------------------------------------------------------------------------------------------------
// driving futures
// ------------------------------------------------------------------------------------------------
pub fn poll_once<F: Future>(mut f: Pin<&mut F>) -> Option<F::Output> {
    use std::task::{RawWaker, RawWakerVTable, Waker};
    fn noop(_: *const ()) {}
    fn clone(_: *const ()) -> RawWaker {
        RawWaker::new(std::ptr::null(), &VTABLE)
    }
    static VTABLE: RawWakerVTable = RawWakerVTable::new(clone, noop, noop, noop);
    let waker = unsafe { Waker::from_raw(RawWaker::new(std::ptr::null(), &VTABLE)) };
    let mut cx = Context::from_waker(&waker);
    match f.as_mut().poll(&mut cx) {
        Poll::Ready(v) => Some(v),
        Poll::Pending => None,
    }
}
