//! Environment of the function slices `ReplicationHandler::{handle_append_entries, check_append_entries_request_is_legal,
//! if_update_commit_index_as_follower}` and of d-engine-proto's `impl AppendEntriesResponse` (gen_follower.rs).
#![allow(dead_code, clippy::all)]
pub use crate::shim::{Entry, LogId, Result, ScopedTimer, ShimNow};
use crate::shim::SCell;
pub use std::cmp;
pub use std::sync::Arc;

#[derive(Clone, Debug)]
pub struct AppendEntriesRequest {
    pub term: u64,
    pub leader_id: u32,
    pub prev_log_index: u64,
    pub prev_log_term: u64,
    pub entries: Vec<Entry>,
    pub leader_commit_index: u64,
}
#[derive(Clone, Copy, Debug, PartialEq)]
pub struct SuccessResult {
    pub last_match: Option<LogId>,
}
#[derive(Clone, Copy, Debug, PartialEq)]
pub struct ConflictResult {
    pub conflict_term: Option<u64>,
    pub conflict_index: Option<u64>,
}
pub mod append_entries_response {
    #[derive(Clone, Copy, Debug, PartialEq)]
    pub enum Result {
        Success(super::SuccessResult),
        Conflict(super::ConflictResult),
        HigherTerm(u64),
    }
}
#[derive(Clone, Copy, Debug, PartialEq)]
pub struct AppendEntriesResponse {
    pub node_id: u32,
    pub term: u64,
    pub result: Option<append_entries_response::Result>,
}
pub struct StateSnapshot {
    pub role: i32,
    pub current_term: u64,
    pub commit_index: u64,
}
pub struct AppendResponseWithUpdates {
    pub response: AppendEntriesResponse,
    pub commit_index_update: Option<u64>,
}
pub trait FCfg {
    type R: FLog;
}
pub type ROF<T> = <T as FCfg>::R;
pub trait FLog {
    fn last_log_id(&self) -> Option<LogId>;
    fn entry_term(&self, index: u64) -> Option<u64>;
    fn first_index_for_term(&self, term: u64) -> Option<u64>;
    fn last_entry_id(&self) -> u64;
    fn filter_out_conflicts_and_append(&self, prev_log_index: u64, prev_log_term: u64, new_entries: Vec<Entry>) -> Result<Option<LogId>>;
}
pub struct FollowerSlice<T> {
    pub my_id: u32,
    pub _t: std::marker::PhantomData<T>,
}
/// Follower log model: a contiguous log 1..=len with the given terms (len <= 3); the conflict-aware append is RECORDED
/// (its arguments are stored) and answered with values chosen by the harness: a new last index and the returned id.
pub struct FLogModel {
    pub len: SCell<u64>,
    pub terms: [u64; 3],
    pub foca_calls: SCell<u32>,
    pub foca_prev: SCell<(u64, u64)>,
    pub foca_n: SCell<usize>,
    pub foca_first_index: SCell<u64>,
    pub after_len: u64,
    pub foca_answer: Option<LogId>,
}
impl FLog for FLogModel {
    fn last_log_id(&self) -> Option<LogId> {
        let l = *self.len.r();
        if l == 0 { None } else { Some(LogId { term: self.terms[(l - 1) as usize], index: l }) }
    }
    fn entry_term(&self, index: u64) -> Option<u64> {
        if index >= 1 && index <= *self.len.r() { Some(self.terms[(index - 1) as usize]) } else { None }
    }
    fn first_index_for_term(&self, term: u64) -> Option<u64> {
        let l = *self.len.r();
        let mut i = 0u64;
        while i < 3 {
            if i < l && self.terms[i as usize] == term {
                return Some(i + 1);
            }
            i += 1;
        }
        None
    }
    fn last_entry_id(&self) -> u64 {
        *self.len.r()
    }
    fn filter_out_conflicts_and_append(&self, prev_log_index: u64, prev_log_term: u64, new_entries: Vec<Entry>) -> Result<Option<LogId>> {
        *self.foca_calls.m() += 1;
        *self.foca_prev.m() = (prev_log_index, prev_log_term);
        *self.foca_n.m() = new_entries.len();
        *self.foca_first_index.m() = if new_entries.is_empty() { 0 } else { new_entries[0].index };
        std::mem::forget(new_entries);
        *self.len.m() = self.after_len;
        Ok(self.foca_answer)
    }
}
pub struct FT;
impl FCfg for FT {
    type R = FLogModel;
}
