//! Environment of the function slice `LeaderState::calculate_new_commit_index` (gen_leader.rs): the method's source
//! text is compiled verbatim as a method of `LeaderSlice`, whose fields model exactly what the body touches.
//! `match_index` is an insertion-ordered array map (the real one is a std HashMap: iteration order is arbitrary there,
//! fixed here; the body's result must not depend on it and the oracle does not assume an order beyond the model's).
#![allow(dead_code, clippy::all)]
use crate::shim::SCell;
pub use std::sync::Arc;

pub const LCAP: usize = 4;
#[derive(Clone, Debug)]
pub struct NodeMeta {
    pub id: u32,
    pub role: i32,
}
pub struct ClusterMetadata {
    pub replication_targets: Vec<NodeMeta>,
}
pub struct LMap<K, V> {
    pub keys: [K; LCAP],
    pub vals: [V; LCAP],
    pub n: usize,
}
pub struct LIter<'a, K, V> {
    m: &'a LMap<K, V>,
    i: usize,
}
impl<K, V> LMap<K, V> {
    pub fn iter(&self) -> LIter<'_, K, V> {
        LIter { m: self, i: 0 }
    }
}
impl<'a, K, V> Iterator for LIter<'a, K, V> {
    type Item = (&'a K, &'a V);
    fn next(&mut self) -> Option<Self::Item> {
        if self.i >= self.m.n {
            return None;
        }
        let i = self.i;
        self.i += 1;
        Some((&self.m.keys[i], &self.m.vals[i]))
    }
}
pub trait LCfg {
    type R: LLog;
}
pub type ROF<T> = <T as LCfg>::R;
pub trait LLog {
    fn calculate_majority_matched_index(&self, current_term: u64, commit_index: u64, peer_matched_ids: Vec<u64>) -> Option<u64>;
}
pub struct LeaderSlice<T> {
    pub match_index: LMap<u32, u64>,
    pub cluster_metadata: ClusterMetadata,
    pub commit: u64,
    pub term: u64,
    pub _t: std::marker::PhantomData<T>,
}
impl<T> LeaderSlice<T> {
    pub fn commit_index(&self) -> u64 {
        self.commit
    }
    pub fn current_term(&self) -> u64 {
        self.term
    }
}
/// Recording log: remembers the arguments of the one call and answers with a value chosen by the harness.
pub struct RecLog {
    pub ids: SCell<[u64; LCAP]>,
    pub n: SCell<usize>,
    pub calls: SCell<u32>,
    pub term_arg: SCell<u64>,
    pub commit_arg: SCell<u64>,
    pub answer: Option<u64>,
}
impl LLog for RecLog {
    fn calculate_majority_matched_index(&self, current_term: u64, commit_index: u64, peer_matched_ids: Vec<u64>) -> Option<u64> {
        *self.calls.m() += 1;
        *self.term_arg.m() = current_term;
        *self.commit_arg.m() = commit_index;
        let n = peer_matched_ids.len();
        assert!(n <= LCAP, "recording log: more ids than peers");
        *self.n.m() = n;
        let mut i = 0;
        while i < LCAP {
            if i < n {
                self.ids.m()[i] = peer_matched_ids[i];
            }
            i += 1;
        }
        std::mem::forget(peer_matched_ids);
        self.answer
    }
}
pub struct LT;
impl LCfg for LT {
    type R = RecLog;
}
