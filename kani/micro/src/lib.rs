#![allow(dead_code)]
use std::future::Future;
use std::pin::Pin;
use std::task::{Context, Poll, RawWaker, RawWakerVTable, Waker};

pub fn poll_once<F: Future>(f: Pin<&mut F>) -> Option<F::Output> {
    fn noop(_: *const ()) {}
    fn clone(_: *const ()) -> RawWaker { RawWaker::new(std::ptr::null(), &VTABLE) }
    static VTABLE: RawWakerVTable = RawWakerVTable::new(clone, noop, noop, noop);
    let waker = unsafe { Waker::from_raw(RawWaker::new(std::ptr::null(), &VTABLE)) };
    let mut cx = Context::from_waker(&waker);
    match f.poll(&mut cx) { Poll::Ready(v) => Some(v), Poll::Pending => None }
}
pub fn run_ready<F: Future>(f: F) -> F::Output {
    let mut f = std::mem::ManuallyDrop::new(f);
    let p = unsafe { Pin::new_unchecked(&mut *f) };
    poll_once(p).unwrap()
}

trait Tr { fn f(&self) -> bool; }
struct A; struct B;
impl Tr for A { fn f(&self) -> bool { true } }
impl Tr for B { fn f(&self) -> bool { #[cfg(kani)] kani::cover!(true, "B::f explored"); false } }

#[cfg(kani)]
#[kani::proof]
fn m1_small_box() {
    let pick: bool = kani::any();
    let _keep: Box<dyn Tr> = if pick { Box::new(B) } else { Box::new(A) }; // make both vtables reachable
    let b: Box<dyn Tr> = Box::new(A);
    let r = b.f();
    kani::cover!(!r, "else branch");
    assert!(r);
}
#[cfg(kani)]
#[kani::proof]
fn m2_big_box() {
    let pick: bool = kani::any();
    let _keep: Box<dyn Tr> = if pick { Box::new(B) } else { Box::new(A) };
    let b: Box<dyn Tr> = Box::new(A);
    let big = Box::new(([1u8; 300], b, [2u8; 300]));
    let r = big.1.f();
    kani::cover!(!r, "else branch");
    assert!(r);
}

#[async_trait::async_trait]
trait M: Send + Sync {
    async fn size(&self) -> usize;
    async fn other(&self) -> usize { #[cfg(kani)] kani::cover!(true, "other explored"); 7 }
    async fn single(&self) -> bool { self.size().await == 1 }
}
struct MM(usize);
#[async_trait::async_trait]
impl M for MM { async fn size(&self) -> usize { self.0 } }

#[async_trait::async_trait]
trait E: Send + Sync {
    async fn run(&self, m: std::sync::Arc<MM>, pad: [u64; 40]) -> u32;
}
struct EE;
#[async_trait::async_trait]
impl E for EE {
    async fn run(&self, m: std::sync::Arc<MM>, pad: [u64; 40]) -> u32 {
        if m.single().await {
            return 1;
        }
        #[cfg(kani)]
        kani::cover!(true, "rest of run explored");
        let k = m.other().await;
        (k as u32) + (pad[3] as u32)
    }
}
#[cfg(kani)]
#[kani::proof]
#[kani::unwind(3)]
fn m3_async_guard() {
    let m = std::sync::Arc::new(MM(1));
    let e = EE;
    let r = run_ready(E::run(&e, m.clone(), [0; 40]));
    assert!(r == 1);
    std::mem::forget(m);
}

// ---- bisect m3 ----
#[async_trait::async_trait]
trait E2: Send + Sync { async fn run(&self, m: std::sync::Arc<MM>) -> u32; }
#[async_trait::async_trait]
impl E2 for EE {
    async fn run(&self, m: std::sync::Arc<MM>) -> u32 {
        if m.size().await == 1 { return 1; }
        #[cfg(kani)]
        kani::cover!(true, "rest explored (m3b)");
        let k = m.other().await;
        k as u32
    }
}
#[cfg(kani)]
#[kani::proof]
#[kani::unwind(3)]
fn m3b_direct_size() {
    let m = std::sync::Arc::new(MM(1));
    let r = run_ready(E2::run(&EE, m.clone()));
    assert!(r == 1);
    std::mem::forget(m);
}
// only the inner call
#[cfg(kani)]
#[kani::proof]
#[kani::unwind(3)]
fn m3c_inner_only() {
    let m = std::sync::Arc::new(MM(1));
    let r = run_ready(m.single());
    assert!(r);
    std::mem::forget(m);
}
// plain async (no boxing)
async fn plain_size(m: &MM) -> usize { m.0 }
async fn plain_single(m: &MM) -> bool { plain_size(m).await == 1 }
async fn plain_run(m: &MM) -> u32 {
    if plain_single(m).await { return 1; }
    #[cfg(kani)]
    kani::cover!(true, "rest explored (plain)");
    9
}
#[cfg(kani)]
#[kani::proof]
#[kani::unwind(3)]
fn m3d_plain_async() {
    let m = MM(1);
    let r = run_ready(plain_run(&m));
    assert!(r == 1);
}

#[async_trait::async_trait]
trait E3: Send + Sync { async fn run3(&self, m: std::sync::Arc<MM>, pad: [u64; 40]) -> u32; }
#[async_trait::async_trait]
impl E3 for EE {
    async fn run3(&self, m: std::sync::Arc<MM>, pad: [u64; 40]) -> u32 {
        if m.size().await == 1 { return 1; }
        #[cfg(kani)]
        kani::cover!(true, "rest explored (m3e)");
        let k = m.other().await;
        (k as u32) + (pad[3] as u32)
    }
}
#[cfg(kani)]
#[kani::proof]
#[kani::unwind(3)]
fn m3e_pad_direct() {
    let m = std::sync::Arc::new(MM(1));
    let r = run_ready(E3::run3(&EE, m.clone(), [0; 40]));
    assert!(r == 1);
    std::mem::forget(m);
}
#[async_trait::async_trait]
trait E4: Send + Sync { async fn run4(&self, m: std::sync::Arc<MM>) -> u32; }
#[async_trait::async_trait]
impl E4 for EE {
    async fn run4(&self, m: std::sync::Arc<MM>) -> u32 {
        if m.single().await { return 1; }
        #[cfg(kani)]
        kani::cover!(true, "rest explored (m3f)");
        let k = m.other().await;
        k as u32
    }
}
#[cfg(kani)]
#[kani::proof]
#[kani::unwind(3)]
fn m3f_nested_nopad() {
    let m = std::sync::Arc::new(MM(1));
    let r = run_ready(E4::run4(&EE, m.clone()));
    assert!(r == 1);
    std::mem::forget(m);
}

pub struct NM { pub id: u32, pub address: String, pub role: i32, pub status: i32 }
fn mkv(n: usize) -> Vec<NM> {
    let mut v = Vec::with_capacity(4);
    let mut i = 0;
    while i < n { v.push(NM { id: i as u32, address: String::new(), role: 0, status: 0 }); i += 1; }
    v
}
#[cfg(kani)]
#[kani::proof]
#[kani::unwind(6)]
fn m4_vec_struct_string() {
    let v = mkv(0);
    assert!(v.is_empty());
}
#[async_trait::async_trait]
trait M2: Send + Sync {
    async fn voters(&self) -> Vec<NM>;
    async fn single2(&self) -> bool { self.voters().await.is_empty() }
}
#[async_trait::async_trait]
impl M2 for MM { async fn voters(&self) -> Vec<NM> { mkv(0) } }
#[cfg(kani)]
#[kani::proof]
#[kani::unwind(6)]
fn m5_async_vec() {
    let m = std::sync::Arc::new(MM(1));
    let r = run_ready(M2::single2(&*m));
    assert!(r);
    std::mem::forget(m);
}

#[cfg(kani)]
#[kani::proof]
#[kani::unwind(6)]
fn m6_async_vec_drop_outside() {
    let m = std::sync::Arc::new(MM(1));
    let v = run_ready(M2::voters(&*m));
    assert!(v.is_empty());
    std::mem::forget(m);
}

#[async_trait::async_trait]
trait M3: Send + Sync {
    async fn a(&self) -> Vec<NM>;
    async fn b(&self) -> Vec<NM>;
    async fn c(&self) -> Vec<NM>;
    async fn d(&self) -> Vec<NM>;
}
#[async_trait::async_trait]
impl M3 for MM {
    async fn a(&self) -> Vec<NM> { mkv(self.0 - 1) }
    async fn b(&self) -> Vec<NM> { mkv(1) }
    async fn c(&self) -> Vec<NM> { unreachable!() }
    async fn d(&self) -> Vec<NM> { mkv(2) }
}
#[cfg(kani)]
#[kani::proof]
#[kani::unwind(6)]
fn m7_many_candidates() {
    let m = std::sync::Arc::new(MM(1));
    let pick: u8 = kani::any();
    // keep all four futures' vtables reachable
    if pick == 77 { let _ = run_ready(m.b()); let _ = run_ready(m.c()); let _ = run_ready(m.d()); }
    let v = run_ready(M3::a(&*m));
    assert!(v.is_empty());
    std::mem::forget(m);
}
