//! Stub environment: a `TypeConfig` whose storage / membership / transport / state machine are
//! small deterministic models, while the election and replication handlers are the REAL ones.
//! Every stub method a harness does not expect to reach is `unreachable!()`, so reaching it fails
//! the harness instead of silently modelling behaviour.
#![allow(dead_code, clippy::all)]
use std::cell::UnsafeCell;
use std::ops::RangeInclusive;
use std::sync::Arc;

use async_trait::async_trait;
use bytes::Bytes;
use d_engine_core::*;
use d_engine_proto::common::{Entry, LogId, MembershipChange, NodeStatus};
use d_engine_proto::server::cluster::*;
use d_engine_proto::server::election::*;
use d_engine_proto::server::replication::*;
use d_engine_proto::server::storage::*;
use futures::stream::BoxStream;

/// Single-threaded interior mutability (Kani is sequential; native replays are single-threaded).
pub struct SCell<T>(UnsafeCell<T>);
unsafe impl<T> Sync for SCell<T> {}
unsafe impl<T> Send for SCell<T> {}
impl<T> SCell<T> {
    pub const fn new(v: T) -> Self {
        SCell(UnsafeCell::new(v))
    }
    #[allow(clippy::mut_from_ref)]
    pub fn m(&self) -> &mut T {
        unsafe { &mut *self.0.get() }
    }
    pub fn r(&self) -> &T {
        unsafe { &*self.0.get() }
    }
}
impl<T> std::fmt::Debug for SCell<T> {
    fn fmt(&self, f: &mut std::fmt::Formatter<'_>) -> std::fmt::Result {
        f.write_str("SCell")
    }
}

#[derive(Debug)]
pub struct VT;
impl TypeConfig for VT {
    type SE = VStorage;
    type SM = VSm;
    type R = VLog;
    type M = VMem;
    type TR = VTr;
    type E = ElectionHandler<VT>;
    type REP = ReplicationHandler<VT>;
    type C = VCommit;
    type SMH = VSmh;
    type SNP = VSnp;
    type PE = VPurge;
}


/// Build a Vec of exactly `n` (<= 4) elements WITHOUT `push`: a growing Vec (realloc path) makes CBMC's pointer
/// reasoning explode when the Vec is dropped later (measured: out of memory vs 1 s).
pub fn vec_exact<T>(n: usize, mut f: impl FnMut(usize) -> T) -> Vec<T> {
    match n {
        0 => Vec::new(),
        1 => vec![f(0)],
        2 => vec![f(0), f(1)],
        3 => vec![f(0), f(1), f(2)],
        4 => vec![f(0), f(1), f(2), f(3)],
        _ => panic!("vec_exact: more than 4 elements"),
    }
}

// ---------------------------------------------------------------------------------------------
// VLog: reference Raft log over a fixed array (entries 1..=len, payloads dropped).
// ---------------------------------------------------------------------------------------------
pub const MAXLOG: usize = 4;

#[derive(Debug, Clone, Copy)]
pub struct VLogInner {
    pub len: u64,
    pub terms: [u64; MAXLOG],
    pub next_id: u64,
    /// last hard state handed to `save_hard_state` (what a crash would recover; MetaStore contract)
    pub saved: Option<HardState>,
    pub save_calls: u32,
    /// number of mutating calls seen (pre_allocate / append / insert / conflict-append / reset / purge)
    pub writes: u32,
    /// if false, any mutating call is a harness failure
    pub allow_write: bool,
    /// if true, `get_entries_range` only RECORDS the requested range and returns an empty Vec (lets a harness decide
    /// the caller's index arithmetic at full width without materialising entries)
    pub record_only: bool,
    pub ranges: [(u64, u64); 2],
    pub nranges: usize,
    /// the peer match indexes handed to the last `calculate_majority_matched_index` call (before self is added)
    pub maj_arg: [u64; 4],
    pub maj_n: usize,
    pub maj_calls: u32,
}
#[derive(Debug)]
pub struct VLog {
    pub i: SCell<VLogInner>,
}
impl VLog {
    pub fn new(len: u64, terms: [u64; MAXLOG]) -> Self {
        VLog {
            i: SCell::new(VLogInner {
                len,
                terms,
                next_id: len + 1,
                saved: None,
                save_calls: 0,
                writes: 0,
                allow_write: true,
                record_only: false,
                ranges: [(0, 0); 2],
                nranges: 0,
                maj_arg: [0; 4],
                maj_n: 0,
                maj_calls: 0,
            }),
        }
    }
    pub fn empty() -> Self {
        Self::new(0, [0; MAXLOG])
    }
    pub fn term_at(&self, idx: u64) -> u64 {
        let g = self.i.r();
        if idx >= 1 && idx <= g.len { g.terms[(idx - 1) as usize] } else { 0 }
    }
    pub fn len(&self) -> u64 {
        self.i.r().len
    }
    fn wr(&self) {
        let g = self.i.m();
        assert!(g.allow_write, "VLog: unexpected mutating call");
        g.writes += 1;
    }
    fn push(&self, e: &Entry) {
        let g = self.i.m();
        assert!(e.index == g.len + 1, "VLog model: non-contiguous append");
        assert!((g.len as usize) < MAXLOG, "VLog model: capacity");
        g.terms[g.len as usize] = e.term;
        g.len += 1;
        if g.next_id <= g.len {
            g.next_id = g.len + 1;
        }
    }
}
#[async_trait]
impl RaftLog for VLog {
    fn entry(&self, index: u64) -> Result<Option<Entry>> {
        let g = self.i.r();
        if index >= 1 && index <= g.len {
            Ok(Some(Entry { index, term: g.terms[(index - 1) as usize], payload: None }))
        } else {
            Ok(None)
        }
    }
    fn first_entry_id(&self) -> u64 {
        if self.i.r().len > 0 { 1 } else { 0 }
    }
    fn last_entry_id(&self) -> u64 {
        self.i.r().len
    }
    fn durable_index(&self) -> u64 {
        self.i.r().len
    }
    fn last_log_id(&self) -> Option<LogId> {
        let g = self.i.r();
        if g.len == 0 { None } else { Some(LogId { index: g.len, term: g.terms[(g.len - 1) as usize] }) }
    }
    fn last_entry(&self) -> Option<Entry> {
        let l = self.last_entry_id();
        self.entry(l).ok().flatten()
    }
    fn is_empty(&self) -> bool {
        self.i.r().len == 0
    }
    fn entry_term(&self, entry_id: u64) -> Option<u64> {
        let g = self.i.r();
        if entry_id >= 1 && entry_id <= g.len { Some(g.terms[(entry_id - 1) as usize]) } else { None }
    }
    fn first_index_for_term(&self, term: u64) -> Option<u64> {
        let g = self.i.r();
        let mut i = 0;
        while i < g.len {
            if g.terms[i as usize] == term {
                return Some(i + 1);
            }
            i += 1;
        }
        None
    }
    fn last_index_for_term(&self, term: u64) -> Option<u64> {
        let g = self.i.r();
        let mut i = g.len;
        while i > 0 {
            if g.terms[(i - 1) as usize] == term {
                return Some(i);
            }
            i -= 1;
        }
        None
    }
    fn get_entries_range(&self, range: RangeInclusive<u64>) -> Result<Vec<Entry>> {
        if self.i.r().record_only {
            let g = self.i.m();
            assert!(g.nranges < 2, "VLog: more range reads than expected");
            g.ranges[g.nranges] = (*range.start(), *range.end());
            g.nranges += 1;
            return Ok(Vec::new());
        }
        let g = self.i.r();
        let (s, e) = (*range.start(), *range.end());
        let lo = if s == 0 { 1 } else { s };
        let hi = if e < g.len { e } else { g.len };
        let n = if hi >= lo { (hi - lo + 1) as usize } else { 0 };
        Ok(vec_exact(n, |k| Entry { index: lo + k as u64, term: g.terms[(lo + k as u64 - 1) as usize], payload: None }))
    }
    fn pre_allocate_raft_logs_next_index(&self) -> u64 {
        self.wr();
        let g = self.i.m();
        let v = g.next_id;
        g.next_id += 1;
        v
    }
    fn pre_allocate_id_range(&self, count: u64) -> RangeInclusive<u64> {
        self.wr();
        if count == 0 {
            return u64::MAX..=u64::MAX;
        }
        let g = self.i.m();
        let s = g.next_id;
        g.next_id += count;
        s..=(s + count - 1)
    }
    async fn append_entries(&self, entries: Vec<Entry>) -> Result<()> {
        self.wr();
        let mut k = 0;
        while k < entries.len() {
            self.push(&entries[k]);
            k += 1;
        }
        std::mem::forget(entries);
        Ok(())
    }
    /// Reference semantics (Raft §5.3): reject on prev mismatch; delete from first conflicting
    /// entry; append what is missing.  `prev == 0` is "start of log" (no reset of agreeing entries).
    async fn filter_out_conflicts_and_append(&self, p: u64, t: u64, e: Vec<Entry>) -> Result<Option<LogId>> {
        self.wr();
        if p != 0 && self.entry_term(p) != Some(t) {
            return Ok(self.last_log_id());
        }
        let mut last = None;
        let mut k = 0;
        while k < e.len() {
            let en = &e[k];
            let g = self.i.m();
            if en.index <= g.len {
                if g.terms[(en.index - 1) as usize] != en.term {
                    g.len = en.index - 1;
                    self.push(en);
                }
            } else {
                self.push(en);
            }
            last = Some(LogId { index: en.index, term: en.term });
            k += 1;
        }
        std::mem::forget(e);
        Ok(last)
    }
    fn calculate_majority_matched_index(&self, current_term: u64, commit_index: u64, m: Vec<u64>) -> Option<u64> {
        // reference: largest N >= commit with a strict majority (self included) holding N, term(N)=current.
        // The argument is recorded so harnesses can check WHO was counted.
        let n = m.len();
        assert!(n <= 4, "VLog model: at most 4 peers");
        {
            let g = self.i.m();
            g.maj_calls += 1;
            g.maj_n = n;
            let mut k = 0;
            while k < 4 {
                g.maj_arg[k] = if k < n { m[k] } else { 0 };
                k += 1;
            }
        }
        let mine = self.last_entry_id();
        let total = n + 1;
        let at = |k: usize| -> u64 { if k < n { m[k] } else { mine } };
        let mut best: Option<u64> = None;
        let mut k = 0;
        while k < 5 {
            if k < total {
                let cand = at(k);
                let mut cnt = 0;
                let mut j = 0;
                while j < 5 {
                    if j < total && at(j) >= cand {
                        cnt += 1;
                    }
                    j += 1;
                }
                if cnt * 2 > total && best.map_or(true, |b| cand > b) {
                    best = Some(cand);
                }
            }
            k += 1;
        }
        std::mem::forget(m);
        match best {
            Some(b) if b >= commit_index && self.entry_term(b) == Some(current_term) => Some(b),
            _ => None,
        }
    }
    async fn purge_logs_up_to(&self, _c: LogId) -> Result<()> {
        self.wr();
        unreachable!("VLog::purge_logs_up_to")
    }
    async fn flush(&self) -> Result<()> {
        Ok(())
    }
    async fn reset(&self) -> Result<()> {
        self.wr();
        let g = self.i.m();
        g.len = 0;
        g.next_id = 1;
        Ok(())
    }
    fn load_hard_state(&self) -> Result<Option<HardState>> {
        Ok(self.i.r().saved)
    }
    fn save_hard_state(&self, h: &HardState) -> Result<()> {
        let g = self.i.m();
        g.saved = Some(*h);
        g.save_calls += 1;
        Ok(())
    }
}

// ---------------------------------------------------------------------------------------------
#[derive(Debug)]
pub struct VStorage;
#[derive(Debug)]
pub struct VLogStore;
#[derive(Debug)]
pub struct VMetaStore;
impl StorageEngine for VStorage {
    type LogStore = VLogStore;
    type MetaStore = VMetaStore;
    fn log_store(&self) -> Arc<VLogStore> {
        Arc::new(VLogStore)
    }
    fn meta_store(&self) -> Arc<VMetaStore> {
        Arc::new(VMetaStore)
    }
}
#[async_trait]
impl LogStore for VLogStore {
    async fn persist_entries(&self, _e: Vec<Entry>) -> std::result::Result<(), Error> {
        unreachable!()
    }
    async fn entry(&self, _i: u64) -> std::result::Result<Option<Entry>, Error> {
        unreachable!()
    }
    fn get_entries(&self, _r: RangeInclusive<u64>) -> std::result::Result<Vec<Entry>, Error> {
        unreachable!()
    }
    async fn purge(&self, _c: LogId) -> std::result::Result<(), Error> {
        unreachable!()
    }
    async fn truncate(&self, _f: u64) -> std::result::Result<(), Error> {
        unreachable!()
    }
    fn is_write_durable(&self) -> bool {
        true
    }
    async fn reset(&self) -> std::result::Result<(), Error> {
        unreachable!()
    }
    fn last_index(&self) -> u64 {
        0
    }
}
impl MetaStore for VMetaStore {
    fn save_hard_state(&self, _s: &HardState) -> std::result::Result<(), Error> {
        Ok(())
    }
    fn load_hard_state(&self) -> std::result::Result<Option<HardState>, Error> {
        Ok(None)
    }
}

// ---------------------------------------------------------------------------------------------
/// State machine stub: `last_applied` is harness-chosen; reads are counted.
#[derive(Debug)]
pub struct VSm {
    pub last_applied: SCell<LogId>,
    pub gets: SCell<u32>,
}
impl VSm {
    pub fn new(applied: u64) -> Self {
        VSm { last_applied: SCell::new(LogId { index: applied, term: 0 }), gets: SCell::new(0) }
    }
}
#[async_trait]
impl StateMachine for VSm {
    async fn start(&self) -> std::result::Result<(), Error> {
        Ok(())
    }
    fn stop(&self) -> std::result::Result<(), Error> {
        Ok(())
    }
    fn is_running(&self) -> bool {
        true
    }
    fn get(&self, _k: &[u8]) -> std::result::Result<Option<Bytes>, Error> {
        *self.gets.m() += 1;
        Ok(None)
    }
    fn entry_term(&self, _e: u64) -> Option<u64> {
        None
    }
    async fn apply_chunk(&self, _c: &[ApplyEntry]) -> std::result::Result<Vec<ApplyResult>, Error> {
        unreachable!()
    }
    fn len(&self) -> usize {
        0
    }
    fn update_last_applied(&self, l: LogId) {
        *self.last_applied.m() = l;
    }
    fn last_applied(&self) -> LogId {
        *self.last_applied.r()
    }
    fn persist_last_applied(&self, _l: LogId) -> std::result::Result<(), Error> {
        Ok(())
    }
    fn update_last_snapshot_metadata(&self, _s: &SnapshotMetadata) -> std::result::Result<(), Error> {
        Ok(())
    }
    fn snapshot_metadata(&self) -> Option<SnapshotMetadata> {
        None
    }
    fn persist_last_snapshot_metadata(&self, _s: &SnapshotMetadata) -> std::result::Result<(), Error> {
        Ok(())
    }
    async fn apply_snapshot_from_file(&self, _m: &SnapshotMetadata, _p: std::path::PathBuf) -> std::result::Result<(), Error> {
        unreachable!()
    }
    async fn generate_snapshot_data(&self, _d: std::path::PathBuf, _l: LogId) -> std::result::Result<Bytes, Error> {
        unreachable!()
    }
    fn save_hard_state(&self) -> std::result::Result<(), Error> {
        Ok(())
    }
    fn flush(&self) -> std::result::Result<(), Error> {
        Ok(())
    }
    async fn flush_async(&self) -> std::result::Result<(), Error> {
        Ok(())
    }
    async fn reset(&self) -> std::result::Result<(), Error> {
        unreachable!()
    }
}

/// State machine handler stub: counts local reads (the observable for C12/C13 routing).
#[derive(Debug)]
pub struct VSmh {
    pub reads: SCell<u32>,
    pub applied: SCell<u64>,
}
impl VSmh {
    pub fn new() -> Self {
        VSmh { reads: SCell::new(0), applied: SCell::new(0) }
    }
}
#[async_trait]
impl StateMachineHandler<VT> for VSmh {
    fn last_applied(&self) -> u64 {
        *self.applied.r()
    }
    fn update_pending(&self, _n: u64) {}
    async fn wait_applied(&self, _t: u64, _d: std::time::Duration) -> Result<()> {
        Ok(())
    }
    async fn apply_chunk(&self, _c: Vec<Entry>) -> Result<Vec<ApplyResult>> {
        unreachable!()
    }
    fn read_from_state_machine(&self, _k: Vec<Bytes>) -> Option<Vec<d_engine_core::client::KvEntry>> {
        *self.reads.m() += 1;
        std::mem::forget(_k);
        None
    }
    async fn apply_snapshot_stream_from_leader(
        &self,
        _t: u64,
        _r: tokio::sync::mpsc::Receiver<SnapshotChunk>,
        _a: tokio::sync::mpsc::Sender<SnapshotAck>,
        _c: &SnapshotConfig,
    ) -> Result<()> {
        unreachable!()
    }
    fn should_snapshot(&self, _n: NewCommitData) -> bool {
        false
    }
    async fn create_snapshot(&self) -> Result<(SnapshotMetadata, std::path::PathBuf)> {
        unreachable!()
    }
    async fn cleanup_snapshot(&self, _b: u64, _d: &std::path::Path, _p: &str) -> Result<()> {
        Ok(())
    }
    fn get_latest_snapshot_metadata(&self) -> Option<SnapshotMetadata> {
        None
    }
    async fn load_snapshot_data(&self, _m: SnapshotMetadata) -> Result<BoxStream<'static, Result<SnapshotChunk>>> {
        unreachable!()
    }
    async fn load_snapshot_chunk(&self, _m: &SnapshotMetadata, _s: u32) -> Result<SnapshotChunk> {
        unreachable!()
    }
    fn pending_range(&self) -> Option<RangeInclusive<u64>> {
        None
    }
}

#[derive(Debug)]
pub struct VSnp;
impl SnapshotPolicy for VSnp {
    fn should_trigger(&self, _c: &SnapshotContext) -> bool {
        false
    }
    fn mark_snapshot_created(&mut self) {}
}
#[derive(Debug)]
pub struct VPurge;
#[async_trait]
impl PurgeExecutor for VPurge {
    async fn execute_purge(&self, _l: LogId) -> Result<()> {
        Ok(())
    }
}
#[derive(Debug)]
pub struct VCommit;
#[async_trait]
impl CommitHandler for VCommit {
    async fn run(&mut self) -> Result<()> {
        Ok(())
    }
}

// ---------------------------------------------------------------------------------------------
/// Membership stub.  Peers are ids 2..2+npeers; `learner_mask` bit k set => peer (k+2) is a Learner
/// (not a voter).  `initial_size` is independent of the current voter set on purpose (C03).
/// NOTE: `is_single_node_cluster` is NOT overridden: the trait's default (the code under test) runs.
pub const MAXPEERS: usize = 4;
#[derive(Debug)]
pub struct VMem {
    pub initial_size: usize,
    pub npeers: usize,
    pub learner_mask: u8,
    /// ids for which `contains_node` answers true (bitmask over id-2), defaults to the peers
    pub contains_extra: SCell<u32>,
}
impl VMem {
    pub fn new(initial_size: usize, npeers: usize, learner_mask: u8) -> Self {
        VMem { initial_size, npeers, learner_mask, contains_extra: SCell::new(0) }
    }
    pub fn is_learner(&self, id: u32) -> bool {
        id >= 2 && ((id - 2) as usize) < self.npeers && (self.learner_mask >> (id - 2)) & 1 == 1
    }
    pub fn is_voter(&self, id: u32) -> bool {
        id >= 2 && ((id - 2) as usize) < self.npeers && !self.is_learner(id)
    }
    pub fn nvoters(&self) -> usize {
        let mut n = 0;
        let mut i = 0;
        while i < self.npeers {
            if (self.learner_mask >> i) & 1 == 0 {
                n += 1;
            }
            i += 1;
        }
        n
    }
    fn meta(&self, i: usize) -> NodeMeta {
        let learner = (self.learner_mask >> i) & 1 == 1;
        NodeMeta {
            id: (i as u32) + 2,
            address: String::new(),
            role: if learner {
                d_engine_proto::common::NodeRole::Learner as i32
            } else {
                d_engine_proto::common::NodeRole::Follower as i32
            },
            status: if learner { NodeStatus::Promotable as i32 } else { NodeStatus::Active as i32 },
        }
    }
}
#[async_trait]
impl Membership<VT> for VMem {
    async fn members(&self) -> Vec<NodeMeta> {
        vec_exact(self.npeers, |i| self.meta(i))
    }
    async fn replication_peers(&self) -> Vec<NodeMeta> {
        vec_exact(self.npeers, |i| self.meta(i))
    }
    async fn voters(&self) -> Vec<NodeMeta> {
        let mut idx = [0usize; MAXPEERS];
        let mut n = 0;
        let mut i = 0;
        while i < MAXPEERS {
            if i < self.npeers && (self.learner_mask >> i) & 1 == 0 {
                idx[n] = i;
                n += 1;
            }
            i += 1;
        }
        vec_exact(n, |k| self.meta(idx[k]))
    }
    async fn initial_cluster_size(&self) -> usize {
        self.initial_size
    }
    async fn nodes_with_status(&self, _s: NodeStatus) -> Vec<NodeMeta> {
        unreachable!()
    }
    async fn get_node_status(&self, n: u32) -> Option<NodeStatus> {
        if self.is_voter(n) {
            Some(NodeStatus::Active)
        } else if self.is_learner(n) {
            Some(NodeStatus::Promotable)
        } else {
            None
        }
    }
    async fn check_cluster_is_ready(&self) -> Result<()> {
        Ok(())
    }
    async fn get_peers_id_with_condition<F>(&self, _c: F) -> Vec<u32>
    where
        F: Fn(i32) -> bool + Send + Sync + 'static,
    {
        vec_exact(self.npeers, |i| (i as u32) + 2)
    }
    async fn retrieve_cluster_membership_config(&self, _l: Option<u32>) -> ClusterMembership {
        ClusterMembership { version: 0, nodes: Vec::new(), current_leader_id: _l }
    }
    async fn update_cluster_conf_from_leader(
        &self,
        _a: u32,
        _b: u64,
        _c: u64,
        _d: Option<u32>,
        _e: &ClusterConfChangeRequest,
    ) -> Result<ClusterConfUpdateResponse> {
        unreachable!()
    }
    async fn get_cluster_conf_version(&self) -> u64 {
        0
    }
    async fn update_conf_version(&self, _v: u64) {}
    async fn incr_conf_version(&self) {}
    async fn add_learner(&self, _n: u32, _a: String, _s: NodeStatus) -> Result<()> {
        unreachable!()
    }
    async fn activate_node(&mut self, _n: u32) -> Result<()> {
        unreachable!()
    }
    async fn update_node_status(&self, _n: u32, _s: NodeStatus) -> Result<()> {
        unreachable!()
    }
    async fn contains_node(&self, n: u32) -> bool {
        (n >= 2 && ((n - 2) as usize) < self.npeers) || (n >= 2 && n < 34 && (*self.contains_extra.r() >> (n - 2)) & 1 == 1)
    }
    async fn retrieve_node_meta(&self, _n: u32) -> Option<NodeMeta> {
        None
    }
    async fn remove_node(&self, _n: u32) -> Result<()> {
        unreachable!()
    }
    async fn force_remove_node(&self, _n: u32) -> Result<()> {
        unreachable!()
    }
    async fn get_all_nodes(&self) -> Vec<NodeMeta> {
        unreachable!()
    }
    async fn pre_warm_connections(&self) -> Result<()> {
        Ok(())
    }
    async fn get_peer_channel(&self, _n: u32, _c: ConnectionType) -> Option<tonic::transport::Channel> {
        None
    }
    async fn get_address(&self, _n: u32) -> Option<String> {
        None
    }
    async fn apply_config_change(&self, _c: MembershipChange) -> Result<()> {
        unreachable!()
    }
    async fn notify_config_applied(&self, _i: u64) {}
    async fn can_rejoin(&self, _n: u32, _r: i32) -> Result<()> {
        Ok(())
    }
}

// ---------------------------------------------------------------------------------------------
/// Transport stub.  `send_vote_requests` follows the contract of the real gRPC transport
/// (grpc_transport.rs): `peer_ids` = the distinct current voters other than self, `responses` = at most one
/// entry per contacted voter (a voter may stay silent, fail, or answer).  What each voter answers is
/// harness-chosen (`plan[k]` for the k-th voter).  The request and the hard state saved at the moment the
/// request left the node are recorded (C02).
#[derive(Clone, Copy, Debug)]
pub enum VotePlan {
    Silent,
    Fail,
    Resp { granted: bool, term: u64, last_log_index: u64, last_log_term: u64 },
}
pub struct VTr {
    pub plan: SCell<[VotePlan; MAXPEERS]>,
    pub sent_vote_req: SCell<Option<VoteRequest>>,
    pub vote_calls: SCell<u32>,
    pub saved_at_send: SCell<Option<HardState>>,
    pub log_for_saved: SCell<Option<Arc<VLog>>>,
}
impl VTr {
    pub fn new() -> Self {
        VTr {
            plan: SCell::new([VotePlan::Silent; MAXPEERS]),
            sent_vote_req: SCell::new(None),
            vote_calls: SCell::new(0),
            saved_at_send: SCell::new(None),
            log_for_saved: SCell::new(None),
        }
    }
}
#[async_trait]
impl Transport<VT> for VTr {
    async fn send_cluster_update(&self, _r: ClusterConfChangeRequest, _p: &RetryPolicies, _m: Arc<VMem>) -> Result<ClusterUpdateResult> {
        unreachable!()
    }
    async fn send_append_requests(
        &self,
        _r: Vec<(u32, AppendEntriesRequest)>,
        _p: &RetryPolicies,
        _m: Arc<VMem>,
        _c: bool,
    ) -> Result<AppendResult> {
        unreachable!()
    }
    async fn send_vote_requests(&self, r: VoteRequest, _p: &RetryPolicies, m: Arc<VMem>) -> Result<VoteResult> {
        *self.sent_vote_req.m() = Some(r);
        *self.vote_calls.m() += 1;
        if let Some(l) = self.log_for_saved.r() {
            *self.saved_at_send.m() = l.i.r().saved;
        }
        let mut peer_ids = std::collections::HashSet::new();
        let mut responses = Vec::new();
        let mut k = 0usize;
        let mut i = 0usize;
        while i < m.npeers {
            if (m.learner_mask >> i) & 1 == 0 {
                peer_ids.insert((i as u32) + 2);
                match self.plan.r()[k] {
                    VotePlan::Silent => {}
                    VotePlan::Fail => responses.push(Err(Error::Fatal(String::new()))),
                    VotePlan::Resp { granted, term, last_log_index, last_log_term } => {
                        responses.push(Ok(VoteResponse { term, vote_granted: granted, last_log_index, last_log_term }))
                    }
                }
                k += 1;
            }
            i += 1;
        }
        if peer_ids.is_empty() {
            return Err(Error::Fatal(String::new()));
        }
        Ok(VoteResult { peer_ids, responses })
    }
    async fn join_cluster(&self, _l: u32, _r: JoinRequest, _p: BackoffPolicy, _m: Arc<VMem>) -> Result<JoinResponse> {
        unreachable!()
    }
    async fn discover_leader(&self, _r: LeaderDiscoveryRequest, _c: bool, _m: Arc<VMem>) -> Result<Vec<LeaderDiscoveryResponse>> {
        unreachable!()
    }
    async fn send_append_request(
        &self,
        _p: u32,
        _r: AppendEntriesRequest,
        _rp: &RetryPolicies,
        _m: Arc<VMem>,
        _c: bool,
    ) -> Result<AppendEntriesResponse> {
        unreachable!()
    }
    async fn send_snapshot(&self, _p: u32, _md: SnapshotMetadata, _s: Arc<VSmh>, _m: Arc<VMem>, _c: SnapshotConfig) -> Result<()> {
        unreachable!()
    }
    async fn request_snapshot_from_leader(
        &self,
        _l: u32,
        _a: tokio::sync::mpsc::Receiver<SnapshotAck>,
        _r: &InstallSnapshotBackoffPolicy,
        _m: Arc<VMem>,
    ) -> Result<tokio::sync::mpsc::Receiver<SnapshotChunk>> {
        unreachable!()
    }
    async fn open_replication_stream(&self, _p: u32, _m: Arc<VMem>, _c: bool) -> Result<ReplicationStream> {
        unreachable!()
    }
}

// ---------------------------------------------------------------------------------------------
/// Poll a future that must complete without suspending (all stubs are synchronous).
/// The future is deliberately NOT dropped: the drop glue of an async block switches on the generator state, which
/// CBMC sees as a merged (non-constant) value after the poll, so it would symbolically execute the drop of every
/// suspended state -- each holding boxed `dyn Future`s whose drop dispatches over every async block of the program.
pub fn run_ready<F: std::future::Future>(f: F) -> F::Output {
    let mut f = std::mem::ManuallyDrop::new(f);
    let p = unsafe { std::pin::Pin::new_unchecked(&mut *f) };
    match poll_once(p) {
        Some(v) => v,
        None => panic!("future suspended"),
    }
}
pub fn poll_once<F: std::future::Future>(mut f: std::pin::Pin<&mut F>) -> Option<F::Output> {
    use std::task::{Context, Poll, RawWaker, RawWakerVTable, Waker};
    fn noop(_: *const ()) {}
    fn clone(_: *const ()) -> RawWaker {
        RawWaker::new(std::ptr::null(), &VTABLE)
    }
    static VTABLE: RawWakerVTable = RawWakerVTable::new(clone, noop, noop, noop);
    let waker = unsafe { Waker::from_raw(RawWaker::new(std::ptr::null(), &VTABLE)) };
    let mut cx = Context::from_waker(&waker);
    match f.as_mut().poll(&mut cx) {
        Poll::Ready(v) => Some(v),
        Poll::Pending => None,
    }
}

/// Build the `RaftContext<VT>` (all pub fields) around the given stubs.
pub fn mk_ctx(log: VLog, mem: VMem, cfg: Arc<RaftNodeConfig>) -> RaftContext<VT> {
    RaftContext::<VT> {
        node_id: 1,
        storage: RaftStorageHandles::<VT> { raft_log: Arc::new(log), state_machine: Arc::new(VSm::new(0)) },
        transport: Arc::new(VTr::new()),
        membership: Arc::new(mem),
        handlers: RaftCoreHandlers::<VT> {
            election_handler: ElectionHandler::new(1),
            replication_handler: ReplicationHandler::new(1),
            state_machine_handler: Arc::new(VSmh::new()),
            purge_executor: Arc::new(VPurge),
        },
        node_config: cfg,
    }
}

/// `RaftNodeConfig::default()` (concrete; only fields a harness overrides are symbolic).
pub fn shared_default_config() -> Arc<RaftNodeConfig> {
    Arc::new(RaftNodeConfig::default())
}
