//! Tier-A kernels: lease word (C12), quorum arithmetic (C01/C26), config validators (C34/C12),
//! purge guards (C05).  All inputs full width unless a bound is stated on the harness.
use crate::env::*;
use crate::stubs::*;
use d_engine_core::verif_hooks as vh;
use d_engine_core::*;
use d_engine_core::candidate_state::CandidateState;
use d_engine_core::follower_state::FollowerState;
use d_engine_core::leader_state::{calculate_safe_batch_size, LeaderState};
use d_engine_core::learner_state::LearnerState;
use d_engine_proto::common::LogId;

// ------------------------------------------------------------------------------------------
// C12: the packed lease word
// ------------------------------------------------------------------------------------------
/// For every (term, deadline < 2^48, now, term'): after renew the validity predicates are exactly
/// "same term (mod 2^16) and deadline strictly in the future"; after revoke / invalidate nothing is valid.
#[kani::proof]
#[kani::unwind(2)]
pub fn c12_lease_word() {
    let l = ReadLease::new();
    let now0: u64 = kani::any();
    assert!(!l.is_valid(now0), "C12:fresh_lease_is_invalid");
    let term: u64 = kani::any();
    let dl: u64 = kani::any();
    kani::assume(dl < (1u64 << 48));
    l.renew(term, dl);
    let now: u64 = kani::any();
    let t2: u64 = kani::any();
    let v = l.is_valid_for_leader(t2, now);
    assert!(v == (((t2 & 0xFFFF) == (term & 0xFFFF)) && dl > now), "C12:valid_for_leader_iff_same_term_and_deadline_in_future");
    assert!(l.is_valid(now) == (dl > now), "C12:is_valid_iff_deadline_in_future");
    // exact-term form for terms that differ by less than 2^16 (documented 16-bit wrap limit)
    if t2 != term && (t2 > term && t2 - term < 65536 || term > t2 && term - t2 < 65536) {
        assert!(!v, "C12:lease_of_other_term_never_valid_within_2^16_terms");
    }
    kani::cover!(v, "lease valid for leader");
    kani::cover!(!v && dl > now, "lease rejected because of term");
    kani::cover!(!v && (t2 & 0xFFFF) == (term & 0xFFFF), "lease rejected because expired");
    let which: bool = kani::any();
    if which {
        l.revoke();
    } else {
        let nt: u64 = kani::any();
        l.invalidate(nt);
    }
    let now2: u64 = kani::any();
    let t3: u64 = kani::any();
    assert!(!l.is_valid(now2), "C12:revoked_lease_never_valid");
    assert!(!l.is_valid_for_leader(t3, now2), "C12:revoked_lease_never_valid_for_leader");
}

// ------------------------------------------------------------------------------------------
// C01 / C26: quorum arithmetic
// ------------------------------------------------------------------------------------------
/// Two majorities of the same voter set of size n always intersect; majority_count is the least majority.
#[kani::proof]
#[kani::unwind(2)]
pub fn c01_quorum_intersection() {
    let n: usize = kani::any();
    let a: usize = kani::any();
    let b: usize = kani::any();
    kani::assume(n <= (1usize << 40) && a <= n && b <= n);
    if vh::is_majority(a, n) && vh::is_majority(b, n) {
        assert!(a + b > n, "C01:two_majorities_of_one_set_intersect");
    }
    let m = cluster::majority_count(n);
    assert!(vh::is_majority(m, n), "C01:majority_count_is_a_majority");
    if m > 0 {
        assert!(!vh::is_majority(m - 1, n), "C01:majority_count_is_least");
    }
    kani::cover!(vh::is_majority(a, n) && !vh::is_majority(b, n), "one majority, one minority");
    kani::cover!(n == 5 && a == 3, "3 of 5");
}

/// calculate_safe_batch_size: never more than available, keeps an odd voter count odd.
#[kani::proof]
#[kani::unwind(2)]
pub fn c26_batch_size_parity() {
    let cur: usize = kani::any();
    let avail: usize = kani::any();
    kani::assume(cur <= (1usize << 32) && avail <= (1usize << 32));
    let k = calculate_safe_batch_size(cur, avail);
    assert!(k <= avail, "C26:batch_not_larger_than_available");
    if k > 0 {
        assert!((cur + k) % 2 == 1, "C26:voter_count_after_promotion_is_odd");
    }
    kani::cover!(k >= 2, "batch of two or more");
    kani::cover!(k == 0 && avail == 1, "single learner refused");
}

/// THE safety condition for a membership change without joint consensus: every majority of the old voter set
/// must intersect every majority of the new one (a node that has not applied the change yet still uses the old
/// set).  old = n voters, new = n + k with k the batch the code allows.
/// Part 1: whenever the allowed batch is a single server (k <= 1) the two majorities intersect.
#[kani::proof]
#[kani::unwind(2)]
pub fn c26_allowed_single_promotion_is_safe() {
    let n: usize = kani::any();
    let avail: usize = kani::any();
    kani::assume(n >= 1 && n <= 64 && avail <= 64);
    let k = calculate_safe_batch_size(n, avail);
    kani::assume(k <= 1);
    let qo = cluster::majority_count(n);
    let qn = cluster::majority_count(n + k);
    assert!(qo + qn > n + k, "C26:old_and_new_majorities_disjoint_for_single_promotion");
    kani::cover!(k == 1, "single promotion");
    kani::cover!(k == 0 && avail == 1, "single learner held back for parity");
}
/// Part 2: the batches of two or more that the code allows.  Worst case: the old majority lies entirely among
/// the n old voters and the new majority takes all k new voters first; they are forced to share a node iff
/// qo + qn > n + k.
#[kani::proof]
#[kani::unwind(2)]
pub fn c26_allowed_batch_promotion_is_safe() {
    let n: usize = kani::any();
    let avail: usize = kani::any();
    kani::assume(n >= 1 && n <= 64 && avail <= 64);
    let k = calculate_safe_batch_size(n, avail);
    kani::assume(k >= 2);
    let qo = cluster::majority_count(n);
    let qn = cluster::majority_count(n + k);
    kani::cover!(n == 3 && k == 2, "3 -> 5");
    kani::cover!(n == 1 && k == 2, "1 -> 3");
    assert!(qo + qn > n + k, "C26:batch_promotion_of_two_or_more_allows_disjoint_old_and_new_majorities");
}
/// Same obligation restricted to what is safe by the single-server-change argument (k <= 1).
#[kani::proof]
#[kani::unwind(2)]
pub fn c26_single_step_majorities_intersect() {
    let n: usize = kani::any();
    kani::assume(n >= 1 && n <= (1usize << 32));
    let k: usize = kani::any();
    kani::assume(k <= 1);
    let qo = cluster::majority_count(n);
    let qn = cluster::majority_count(n + k);
    assert!(qo + qn > n + k, "C26:single_server_change_majorities_intersect");
    kani::cover!(k == 1 && n == 3, "3 -> 4");
    kani::cover!(k == 1 && n == 4, "4 -> 5");
}

// ------------------------------------------------------------------------------------------
// C34 (+C12): configuration validators, full-width numeric fields
// ------------------------------------------------------------------------------------------
#[kani::proof]
#[kani::unwind(2)]
#[kani::stub(std_catch_unwind, cu)]
#[kani::stub(std::fmt::format, stub_format)]
pub fn c34_election_and_read_consistency() {
    let e = ElectionConfig {
        election_timeout_min: kani::any(),
        election_timeout_max: kani::any(),
        rpc_peer_connectinon_monitor_interval_in_sec: kani::any(),
        internal_rpc_client_request_id: kani::any(),
    };
    let re = config::verif_hooks_config::election_validate(&e);
    if re.is_ok() {
        assert!(e.election_timeout_min < e.election_timeout_max, "C34:accepted_election_min_below_max");
    }
    let pol: u8 = kani::any();
    let rc = ReadConsistencyConfig {
        default_policy: match pol % 3 {
            0 => ReadConsistencyPolicy::LeaseRead,
            1 => ReadConsistencyPolicy::LinearizableRead,
            _ => ReadConsistencyPolicy::EventualConsistency,
        },
        lease_duration_ms: kani::any(),
        allow_client_override: kani::any(),
        state_machine_sync_timeout_ms: kani::any(),
        network_rtt_p99_ms: kani::any(),
    };
    let rr = config::verif_hooks_config::read_consistency_validate(&rc, e.election_timeout_min);
    if rr.is_ok() {
        assert!(rc.lease_duration_ms > 0, "C34:accepted_lease_nonzero");
        // no wrap-around: compare in u128
        let lhs = rc.lease_duration_ms as u128 + (rc.network_rtt_p99_ms / 2) as u128;
        assert!(lhs < e.election_timeout_min as u128, "C34:accepted_lease_plus_half_rtt_below_election_min");
        assert!(rc.lease_duration_ms < e.election_timeout_min, "C12:accepted_lease_shorter_than_min_election_timeout");
    }
    kani::cover!(re.is_ok() && rr.is_ok(), "both accepted");
    kani::cover!(rr.is_err() && rc.lease_duration_ms > 0 && rc.lease_duration_ms < e.election_timeout_min, "rejected only because of rtt margin");
    kani::cover!(rr.is_err() && rc.lease_duration_ms > u64::MAX - 10 && rc.network_rtt_p99_ms > 100, "overflow-range sum rejected");
    std::mem::forget(re);
    std::mem::forget(rr);
}

#[kani::proof]
#[kani::unwind(2)]
#[kani::stub(std_catch_unwind, cu)]
#[kani::stub(std::fmt::format, stub_format)]
pub fn c34_replication_and_batching() {
    let r = ReplicationConfig { rpc_append_entries_clock_in_ms: kani::any(), append_entries_max_entries_per_replication: kani::any() };
    let rr = config::verif_hooks_config::replication_validate(&r);
    if rr.is_ok() {
        assert!(r.rpc_append_entries_clock_in_ms > 0, "C34:accepted_heartbeat_nonzero");
        assert!(r.append_entries_max_entries_per_replication > 0, "C34:accepted_per_request_cap_nonzero");
    }
    let b = BatchingConfig { max_batch_size: kani::any(), max_merge_entries: kani::any() };
    let rb = config::verif_hooks_config::batching_validate(&b);
    if rb.is_ok() {
        assert!(b.max_batch_size > 0 && b.max_merge_entries > 0, "C34:accepted_batch_limits_nonzero");
    }
    kani::cover!(rr.is_ok() && rb.is_ok(), "both accepted");
    kani::cover!(rr.is_err(), "replication rejected");
    kani::cover!(rb.is_err(), "batching rejected");
    std::mem::forget(rr);
    std::mem::forget(rb);
}

// ------------------------------------------------------------------------------------------
// C05: purge guards (leader and follower): purge only strictly below commit, strictly above last purge
// ------------------------------------------------------------------------------------------
#[kani::proof]
#[kani::stub(std_catch_unwind, cu)]
#[kani::stub(std::time::Instant::now, fixed_std_now)]
#[kani::stub(tokio::time::Instant::now, fixed_tokio_now)]
#[kani::stub(vh::ElectionTimer::random_duration, fixed_random_duration)]
#[kani::unwind(2)]
pub fn c05_follower_purge_guard() {
    let cfg = std::sync::Arc::new(RaftNodeConfig::default());
    let mut f = FollowerState::<VT>::new(1, cfg, None, None);
    let commit: u64 = kani::any();
    f.shared_state.commit_index = commit;
    let li = LogId { index: kani::any(), term: kani::any() };
    let has_last: bool = kani::any();
    let last = LogId { index: kani::any(), term: kani::any() };
    let ok = f.can_purge_logs(if has_last { Some(last) } else { None }, li);
    if ok {
        assert!(li.index < commit, "C05:purge_only_strictly_below_commit_index");
        if has_last {
            assert!(last.index < li.index, "C05:purge_boundary_strictly_increases");
        }
    }
    kani::cover!(ok && has_last, "purge allowed after an earlier purge");
    kani::cover!(!ok && li.index < commit, "purge refused by monotonicity");
    std::mem::forget(f);
}

/// C34: the snapshot section -- an accepted configuration retains at least one log entry (and the other numeric limits
/// are non-zero).  All numeric fields symbolic at full width; the directory probe of `validate_directory` is stubbed.
#[kani::proof]
#[kani::stub(std_catch_unwind, cu)]
#[kani::stub(std::fmt::format, stub_format)]
#[kani::stub(std::path::Path::exists, stub_path_exists)]
#[kani::stub(std::fs::write, stub_fs_write)]
#[kani::stub(std::fs::remove_file, stub_fs_remove_file)]
#[kani::stub(std::fs::create_dir_all, stub_fs_create_dir_all)]
#[kani::unwind(2)]
pub fn c34_snapshot_retention() {
    let mut s = SnapshotConfig::default();
    s.max_log_entries_before_snapshot = kani::any();
    s.cleanup_retain_count = kani::any();
    s.chunk_size = kani::any();
    s.retained_log_entries = kani::any();
    s.sender_yield_every_n_chunks = kani::any();
    s.receiver_yield_every_n_chunks = kani::any();
    s.push_queue_size = kani::any();
    s.receive_chunk_timeout_in_sec = kani::any();
    s.snapshot_push_max_retry = kani::any();
    let r = config::verif_hooks_config::snapshot_validate(&s);
    kani::cover!(r.is_ok(), "snapshot section accepted");
    kani::cover!(r.is_err() && s.retained_log_entries == 0 && s.chunk_size > 0 && s.cleanup_retain_count > 0 && s.max_log_entries_before_snapshot > 0, "rejected only because nothing would be retained");
    if r.is_ok() {
        assert!(s.retained_log_entries >= 1, "C34:accepted_snapshot_config_retains_no_log_entry");
        assert!(s.max_log_entries_before_snapshot > 0 && s.cleanup_retain_count > 0 && s.chunk_size > 0, "C34:accepted_snapshot_limits_zero");
    }
    std::mem::forget(r);
    std::mem::forget(s);
}

/// C34: the composition -- `RaftConfig::validate()` (public entry) really enforces every section's constraints.
/// Numeric fields of the election / read-consistency / replication / batching / snapshot sections are symbolic at
/// full width, everything else is the default.
#[kani::proof]
#[kani::stub(std_catch_unwind, cu)]
#[kani::stub(tracing::level_filters::LevelFilter::current, stub_level_off)]
#[kani::stub(tracing::callsite::DefaultCallsite::register, stub_callsite_register)]
#[kani::stub(std::fmt::format, stub_format)]
#[kani::stub(std::path::Path::exists, stub_path_exists)]
#[kani::stub(std::fs::write, stub_fs_write)]
#[kani::stub(std::fs::remove_file, stub_fs_remove_file)]
#[kani::stub(std::fs::create_dir_all, stub_fs_create_dir_all)]
#[kani::unwind(2)]
pub fn c34_raft_config_composition() {
    let mut c = RaftConfig::default();
    c.election.election_timeout_min = kani::any();
    c.election.election_timeout_max = kani::any();
    c.read_consistency.lease_duration_ms = kani::any();
    c.read_consistency.network_rtt_p99_ms = kani::any();
    c.replication.rpc_append_entries_clock_in_ms = kani::any();
    c.replication.append_entries_max_entries_per_replication = kani::any();
    c.batching.max_batch_size = kani::any();
    c.batching.max_merge_entries = kani::any();
    c.snapshot.retained_log_entries = kani::any();
    let r = c.validate();
    kani::cover!(r.is_ok(), "configuration accepted");
    kani::cover!(r.is_err() && c.election.election_timeout_min < c.election.election_timeout_max && c.replication.rpc_append_entries_clock_in_ms > 0
        && c.replication.append_entries_max_entries_per_replication > 0 && c.batching.max_batch_size > 0 && c.batching.max_merge_entries > 0
        && c.snapshot.retained_log_entries >= 1, "rejected only because of the lease window");
    if r.is_ok() {
        assert!(c.election.election_timeout_min < c.election.election_timeout_max, "C34:accepted_election_min_below_max");
        assert!(c.read_consistency.lease_duration_ms > 0, "C34:accepted_lease_nonzero");
        let lhs = c.read_consistency.lease_duration_ms as u128 + (c.read_consistency.network_rtt_p99_ms / 2) as u128;
        assert!(lhs < c.election.election_timeout_min as u128, "C34:accepted_lease_plus_half_rtt_below_election_min");
        assert!(c.replication.rpc_append_entries_clock_in_ms > 0, "C34:accepted_heartbeat_nonzero");
        assert!(c.replication.append_entries_max_entries_per_replication > 0, "C34:accepted_per_request_cap_nonzero");
        assert!(c.batching.max_batch_size > 0 && c.batching.max_merge_entries > 0, "C34:accepted_batch_limits_nonzero");
        assert!(c.snapshot.retained_log_entries >= 1, "C34:accepted_snapshot_config_retains_no_log_entry");
    }
    std::mem::forget(r);
    std::mem::forget(c);
}

/// C26 thorough tier: the single-promotion obligation at full practical width (n up to 2^40 voters).
#[kani::proof]
#[kani::unwind(2)]
pub fn c26_allowed_single_promotion_is_safe_wide() {
    let n: usize = kani::any();
    let avail: usize = kani::any();
    kani::assume(n >= 1 && n <= (1usize << 40) && avail <= (1usize << 40));
    let k = calculate_safe_batch_size(n, avail);
    kani::assume(k <= 1);
    let qo = cluster::majority_count(n);
    let qn = cluster::majority_count(n + k);
    assert!(qo + qn > n + k, "C26:old_and_new_majorities_disjoint_for_single_promotion");
    kani::cover!(k == 1 && n > (1usize << 39), "single promotion in a huge cluster");
    kani::cover!(k == 0 && avail == 1, "single learner held back for parity");
}
