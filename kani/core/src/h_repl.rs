//! Replication kernels driven with the real `ReplicationHandler<VT>` over the array-backed reference log
//! `VLog` (C04, C07, C08, C09).
use crate::env::*;
use crate::stubs::*;
use d_engine_core::verif_hooks as vh;
use d_engine_core::*;
use d_engine_proto::common::{Entry, LogId};
use d_engine_proto::server::replication::*;
use std::collections::HashMap;
use std::sync::Arc;

/// symbolic log with `len <= maxlen` entries (maxlen <= 4), terms >= 1 and non-decreasing
pub fn any_log(maxlen: u64) -> VLog {
    let len: u64 = kani::any();
    kani::assume(len <= maxlen);
    let t: [u64; MAXLOG] = [kani::any(), kani::any(), kani::any(), kani::any()];
    kani::assume(t[0] >= 1 && t[0] <= t[1] && t[1] <= t[2] && t[2] <= t[3] && t[3] < 1000);
    VLog::new(len, t)
}

pub struct LeaderReq {
    pub req: AppendEntriesRequest,
    pub next: u64,
    pub last_before: u64,
    pub n_new: u64,
    pub cap: u64,
}

/// Build the request the real leader-side code would send to ONE peer (id 2):
/// `retrieve_to_be_synced_logs_for_peers` (via `prepare_peer_entries`) + `build_append_request`.
/// Leader log has `last_before` old entries plus `n_new` (0..=2) freshly appended ones, the peer's
/// next_index is anywhere in 1..=last_before+1 (what `update_next_index` can produce), cap >= 1.
pub fn drive_leader_request(log: &Arc<VLog>, n_new: u64, cap: u64, next: u64, commit: u64, term: u64) -> LeaderReq {
    let h = ReplicationHandler::<VT>::new(1);
    let total = log.len();
    let last_before = total - n_new;
    let new_entries: Vec<Entry> = vec_exact(n_new as usize, |k| {
        let idx = last_before + 1 + k as u64;
        Entry { index: idx, term: log.term_at(idx), payload: None }
    });
    let mut next_idx: HashMap<u32, u64> = HashMap::new();
    next_idx.insert(2, next);
    let data = ReplicationData { leader_last_index_before: last_before, current_term: term, commit_index: commit, peer_next_indices: next_idx };
    let mut per_peer = h.prepare_peer_entries(&new_entries, &data, cap, log);
    let (_pid, req) = h.build_append_request(log, 2, &mut per_peer, &data);
    std::mem::forget(per_peer);
    std::mem::forget(data);
    std::mem::forget(new_entries);
    LeaderReq { req, next, last_before, n_new, cap }
}

fn contiguity_oracle(log: &Arc<VLog>, r: &LeaderReq) {
    let req = &r.req;
    assert!(req.prev_log_index == r.next - 1, "C08:prev_log_index_is_next_index_minus_one");
    let pt = if req.prev_log_index == 0 { 0 } else { log.term_at(req.prev_log_index) };
    assert!(req.prev_log_term == pt, "C04:prev_log_term_is_leader_term_at_prev_index");
    let mut k = 0usize;
    while k < req.entries.len() {
        let e = &req.entries[k];
        assert!(e.index == req.prev_log_index + 1 + k as u64, "C08:request_entries_not_consecutive_after_prev_log_index");
        assert!(e.term == log.term_at(e.index), "C04:request_entry_differs_from_leader_log");
        k += 1;
    }
}

/// C08/C04 leader side, region where the code is expected to behave: NOT (a capped legacy slice AND new entries).
#[kani::proof]
#[kani::stub(std_catch_unwind, cu)]
#[kani::stub(tracing::level_filters::LevelFilter::current, stub_level_off)]
#[kani::stub(tracing::callsite::DefaultCallsite::register, stub_callsite_register)]
#[kani::stub(std::time::Instant::now, fixed_std_now)]
#[kani::stub(tokio::time::Instant::now, fixed_tokio_now)]
#[kani::stub(std::hash::RandomState::new, stub_random_state_new)]
#[kani::unwind(2)]
pub fn c08_leader_request_contiguous() {
    let log = Arc::new(any_log(3));
    let n_new: u64 = kani::any();
    kani::assume(n_new <= 1 && n_new <= log.len());
    let cap: u64 = kani::any();
    kani::assume(cap >= 1 && cap <= 3);
    let last_before = log.len() - n_new;
    let next: u64 = kani::any();
    kani::assume(next >= 1 && next <= last_before + 1);
    // the known-defective region is the subject of `c08_leader_request_capped_plus_new`
    let capped = last_before >= next && last_before - next >= cap;
    kani::assume(!(capped && n_new > 0));
    let r = drive_leader_request(&log, n_new, cap, next, kani::any(), kani::any());
    kani::cover!(r.req.entries.len() == 3, "three entries shipped");
    kani::cover!(capped && r.req.entries.len() as u64 == cap, "legacy slice capped");
    kani::cover!(r.req.entries.is_empty() && next == log.len() + 1, "pure heartbeat");
    kani::cover!(n_new == 1 && next <= last_before, "legacy + new entries");
    contiguity_oracle(&log, &r);
    if !capped {
        // everything from next to the leader's last entry is shipped
        assert!(r.req.entries.len() as u64 == log.len() + 1 - next, "C08:uncapped_request_ships_everything_from_next_index");
    } else {
        assert!(r.req.entries.len() as u64 == cap, "C08:capped_request_ships_exactly_cap_entries");
    }
    std::mem::forget(r);
    std::mem::forget(log);
}

/// C08 leader side, the complementary region: the legacy slice hits the per-request cap AND new entries exist.
#[kani::proof]
#[kani::stub(std_catch_unwind, cu)]
#[kani::stub(tracing::level_filters::LevelFilter::current, stub_level_off)]
#[kani::stub(tracing::callsite::DefaultCallsite::register, stub_callsite_register)]
#[kani::stub(std::time::Instant::now, fixed_std_now)]
#[kani::stub(tokio::time::Instant::now, fixed_tokio_now)]
#[kani::stub(std::hash::RandomState::new, stub_random_state_new)]
#[kani::unwind(2)]
pub fn c08_leader_request_capped_plus_new() {
    let log = Arc::new(any_log(3));
    let n_new: u64 = 1;
    kani::assume(n_new <= log.len());
    let cap: u64 = kani::any();
    kani::assume(cap >= 1 && cap <= 3);
    let last_before = log.len() - n_new;
    let next: u64 = kani::any();
    kani::assume(next >= 1 && next <= last_before + 1);
    kani::assume(last_before >= next && last_before - next >= cap);
    let r = drive_leader_request(&log, n_new, cap, next, kani::any(), kani::any());
    kani::cover!(r.req.entries.len() == 2, "two entries shipped");
    kani::cover!(cap == 1 && last_before == 2 && next == 1, "cap 1, two legacy entries");
    kani::cover!(cap == 1 && last_before == 2 && next == 2, "cap 1, one legacy entry");
    contiguity_oracle(&log, &r);
    std::mem::forget(r);
    std::mem::forget(log);
}

/// C08 leader side at FULL WIDTH: the index arithmetic of `retrieve_to_be_synced_logs_for_peers` +
/// `build_append_request` with a log model that records which range the leader reads instead of materialising it.
/// The request is: prev = next-1, then the legacy range [lo..=hi] read from the log, then the new entries
/// (which start at last_before+1).  It is contiguous iff the legacy range starts at next and, when new entries
/// follow, ends at last_before.
pub struct RangeOutcome {
    pub read: Option<(u64, u64)>,
    pub prev: u64,
    pub n_entries: usize,
    pub first_new: Option<u64>,
}
pub fn drive_leader_ranges(last_before: u64, next: u64, cap: u64, n_new: u64) -> RangeOutcome {
    let log = Arc::new(VLog::new(0, [0; MAXLOG]));
    log.i.m().record_only = true;
    let h = ReplicationHandler::<VT>::new(1);
    let new_entries: Vec<Entry> = vec_exact(n_new as usize, |k| Entry { index: last_before + 1 + k as u64, term: 7, payload: None });
    let mut next_idx: HashMap<u32, u64> = HashMap::new();
    next_idx.insert(2, next);
    let data = ReplicationData { leader_last_index_before: last_before, current_term: 7, commit_index: 0, peer_next_indices: next_idx };
    let mut per_peer = h.prepare_peer_entries(&new_entries, &data, cap, &log);
    let (_pid, req) = h.build_append_request(&log, 2, &mut per_peer, &data);
    let g = log.i.r();
    let read = if g.nranges == 1 { Some(g.ranges[0]) } else { None };
    assert!(g.nranges <= 1, "C08:more_than_one_legacy_range_read");
    let o = RangeOutcome { read, prev: req.prev_log_index, n_entries: req.entries.len(), first_new: req.entries.first().map(|e| e.index) };
    std::mem::forget(req);
    std::mem::forget(per_peer);
    std::mem::forget(data);
    std::mem::forget(new_entries);
    std::mem::forget(log);
    o
}
fn range_oracle(o: &RangeOutcome, last_before: u64, next: u64, cap: u64, n_new: u64) {
    assert!(o.prev == next - 1, "C08:prev_log_index_is_next_index_minus_one");
    assert!(o.n_entries as u64 == n_new, "C08:new_entries_all_shipped_exactly_once");
    if n_new > 0 {
        assert!(o.first_new == Some(last_before + 1), "C08:new_entries_start_after_leader_last_index");
    }
    match o.read {
        None => assert!(last_before < next, "C08:lagging_peer_gets_no_legacy_entries"),
        Some((lo, hi)) => {
            assert!(last_before >= next, "C08:legacy_range_read_for_up_to_date_peer");
            assert!(lo == next, "C08:legacy_range_does_not_start_at_next_index");
            assert!(hi >= lo && hi <= last_before, "C08:legacy_range_outside_leader_log");
            assert!(hi - lo + 1 <= cap, "C08:legacy_range_exceeds_per_request_cap");
            assert!(hi == last_before || hi - lo + 1 == cap, "C08:legacy_range_shorter_than_allowed");
            if n_new > 0 {
                // entries = legacy [lo..=hi] ++ new [last_before+1 ..]: consecutive iff hi == last_before
                assert!(hi == last_before, "C08:gap_between_capped_legacy_entries_and_new_entries");
            }
        }
    }
}
#[kani::proof]
#[kani::stub(std_catch_unwind, cu)]
#[kani::stub(tracing::level_filters::LevelFilter::current, stub_level_off)]
#[kani::stub(tracing::callsite::DefaultCallsite::register, stub_callsite_register)]
#[kani::stub(std::time::Instant::now, fixed_std_now)]
#[kani::stub(tokio::time::Instant::now, fixed_tokio_now)]
#[kani::stub(std::hash::RandomState::new, stub_random_state_new)]
#[kani::unwind(2)]
pub fn c08_leader_ranges_uncapped_or_heartbeat() {
    let last_before: u64 = kani::any();
    let next: u64 = kani::any();
    let cap: u64 = kani::any();
    let n_new: u64 = kani::any();
    kani::assume(last_before < u64::MAX - 4 && next >= 1 && next <= last_before + 1 && cap >= 1 && n_new <= 2);
    let capped = last_before >= next && last_before - next >= cap;
    kani::assume(!(capped && n_new > 0)); // complementary region: c08_leader_ranges_capped_plus_new
    let o = drive_leader_ranges(last_before, next, cap, n_new);
    kani::cover!(o.read.is_some() && n_new == 2, "legacy range + two new entries");
    kani::cover!(o.read.is_none() && n_new == 0, "pure heartbeat");
    kani::cover!(capped, "capped legacy range, no new entries");
    range_oracle(&o, last_before, next, cap, n_new);
}
#[kani::proof]
#[kani::stub(std_catch_unwind, cu)]
#[kani::stub(tracing::level_filters::LevelFilter::current, stub_level_off)]
#[kani::stub(tracing::callsite::DefaultCallsite::register, stub_callsite_register)]
#[kani::stub(std::time::Instant::now, fixed_std_now)]
#[kani::stub(tokio::time::Instant::now, fixed_tokio_now)]
#[kani::stub(std::hash::RandomState::new, stub_random_state_new)]
#[kani::unwind(2)]
pub fn c08_leader_ranges_capped_plus_new() {
    let last_before: u64 = kani::any();
    let next: u64 = kani::any();
    let cap: u64 = kani::any();
    let n_new: u64 = kani::any();
    kani::assume(last_before < u64::MAX - 4 && next >= 1 && next <= last_before + 1 && cap >= 1 && n_new >= 1 && n_new <= 2);
    kani::assume(last_before >= next && last_before - next >= cap);
    let o = drive_leader_ranges(last_before, next, cap, n_new);
    kani::cover!(cap == 100 && last_before == 250 && next == 100, "default cap, peer 150 entries behind");
    range_oracle(&o, last_before, next, cap, n_new);
}

// ------------------------------------------------------------------------------------------
// follower side
// ------------------------------------------------------------------------------------------
pub fn any_request_from(leader: &VLog, maxent: usize) -> AppendEntriesRequest {
    // a well-formed request: prev anywhere in 0..=|L|, contiguous slice of L after prev (what the leader-side
    // obligations above guarantee), any leader_commit <= |L|
    let prev: u64 = kani::any();
    kani::assume(prev <= leader.len());
    let n: u64 = kani::any();
    kani::assume(n as usize <= maxent && prev + n <= leader.len());
    let entries = vec_exact(n as usize, |k| {
        let idx = prev + 1 + k as u64;
        Entry { index: idx, term: leader.term_at(idx), payload: None }
    });
    let lc: u64 = kani::any();
    kani::assume(lc <= leader.len());
    AppendEntriesRequest { term: kani::any(), leader_id: 9, prev_log_index: prev, prev_log_term: leader.term_at(prev), entries, leader_commit_index: lc }
}

/// Log Matching between follower F and leader L: equal term at an index => identical prefix.
pub fn log_matching(f: &VLog, l: &VLog) -> bool {
    let mut ok = true;
    let mut i = 1;
    while i <= MAXLOG as u64 {
        if i <= f.len() && i <= l.len() && f.term_at(i) == l.term_at(i) {
            let mut j = 1;
            while j < i {
                if f.term_at(j) != l.term_at(j) {
                    ok = false;
                }
                j += 1;
            }
        }
        i += 1;
    }
    ok
}
pub fn agree_upto(f: &VLog, l: &VLog, n: u64) -> bool {
    let mut ok = true;
    let mut i = 1;
    while i <= MAXLOG as u64 {
        if i <= n && !(i <= f.len() && i <= l.len() && f.term_at(i) == l.term_at(i)) {
            ok = false;
        }
        i += 1;
    }
    ok
}

pub fn longest_agreeing_prefix(f: &VLog, l: &VLog) -> u64 {
    let mut m = 0;
    let mut i = 1;
    while i <= MAXLOG as u64 {
        if m == i - 1 && i <= f.len() && i <= l.len() && f.term_at(i) == l.term_at(i) {
            m = i;
        }
        i += 1;
    }
    m
}

/// C07 (+C04 response side): the real `check_append_entries_request_is_legal` + `handle_append_entries` on a
/// follower log F (<= 3 entries) that satisfies Log Matching w.r.t. the leader log L (<= 4 entries), for every
/// well-formed request cut from L.  `VLog::filter_out_conflicts_and_append` is the reference conflict-append.
#[kani::proof]
#[kani::stub(std_catch_unwind, cu)]
#[kani::stub(tracing::level_filters::LevelFilter::current, stub_level_off)]
#[kani::stub(tracing::callsite::DefaultCallsite::register, stub_callsite_register)]
#[kani::stub(std::time::Instant::now, fixed_std_now)]
#[kani::stub(tokio::time::Instant::now, fixed_tokio_now)]
#[kani::unwind(2)]
pub fn c07_follower_commit_rule() {
    let l = any_log(4);
    let f = any_log(3);
    kani::assume(log_matching(&f, &l));
    let req = any_request_from(&l, 2);
    // Environment assumption (leader-side invariant, argued in DESIGN.md 4/C07 from the conflict-resolution rules, not
    // solver-checked): an empty request is a heartbeat at the leader's log end, and the leader's next_index never points
    // below the follower's matching prefix while the follower still holds a divergent tail.
    if req.entries.is_empty() {
        kani::assume(req.prev_log_index == l.len());
    }
    let m = longest_agreeing_prefix(&f, &l);
    kani::assume(req.prev_log_index >= m || f.len() == m);
    let my_term: u64 = kani::any();
    kani::assume(my_term <= req.term); // the role state answers higher_term itself otherwise (checked below too)
    let my_commit: u64 = kani::any();
    kani::assume(my_commit <= f.len() && agree_upto(&f, &l, my_commit)); // invariant: committed prefix matches the leader
    let snap = StateSnapshot { role: 0, current_term: my_term, voted_for: None, commit_index: my_commit };
    let flog = Arc::new(f);
    let h = ReplicationHandler::<VT>::new(1);
    let prev = req.prev_log_index;
    let n = req.entries.len() as u64;
    let lc = req.leader_commit_index;
    // a request whose prev is the virtual (0,0) entry is the subject of C05's reset finding: what we require here
    // is only about what the follower marks committed
    let r = run_ready(h.handle_append_entries(req, &snap, &flog)).unwrap();
    let resp = r.response;
    kani::cover!(resp.is_success() && r.commit_index_update.is_some(), "accepted, commit advanced");
    kani::cover!(resp.is_conflict(), "rejected with conflict");
    kani::cover!(resp.is_success() && n == 0 && flog.len() > prev, "heartbeat to a follower with entries beyond prev");
    if let Some(c) = r.commit_index_update {
        assert!(resp.is_success(), "C07:commit_advanced_on_rejected_request");
        assert!(c <= lc, "C07:follower_commit_beyond_leader_commit");
        assert!(c > my_commit || c == lc.min(flog.len()), "C07:commit_update_value");
        // every index the follower now treats as committed holds the leader's entry
        assert!(agree_upto(&flog, &l, c), "C07:follower_commits_entry_that_differs_from_leader_log");
    }
    if resp.is_success() {
        // what the follower acknowledges really matches the leader (feeds the leader's match_index, C09)
        if let Some(append_entries_response::Result::Success(s)) = resp.result {
            if let Some(m) = s.last_match {
                assert!(agree_upto(&flog, &l, m.index), "C09:acknowledged_match_index_not_matching_leader_log");
            }
        }
        assert!(log_matching(&flog, &l), "C04:log_matching_broken_by_accepted_request");
    }
    std::mem::forget(flog);
    std::mem::forget(l);
}

/// C09 kernels on the leader: success/conflict response -> PeerUpdate.
#[kani::proof]
#[kani::stub(std_catch_unwind, cu)]
#[kani::stub(tracing::level_filters::LevelFilter::current, stub_level_off)]
#[kani::stub(tracing::callsite::DefaultCallsite::register, stub_callsite_register)]
#[kani::stub(std::time::Instant::now, fixed_std_now)]
#[kani::stub(tokio::time::Instant::now, fixed_tokio_now)]
#[kani::unwind(2)]
pub fn c09_response_to_peer_update() {
    let h = ReplicationHandler::<VT>::new(1);
    let log = Arc::new(any_log(4));
    let peer_term: u64 = kani::any();
    let leader_term: u64 = kani::any();
    let has: bool = kani::any();
    let lm = LogId { index: kani::any(), term: kani::any() };
    kani::assume(lm.index < u64::MAX);
    let s = SuccessResult { last_match: if has { Some(lm) } else { None } };
    match h.handle_success_response(2, peer_term, s, leader_term) {
        Ok(u) => {
            assert!(peer_term <= leader_term, "C09:success_from_higher_term_accepted");
            assert!(u.success && u.match_index == Some(if has { lm.index } else { 0 }), "C09:match_index_is_acknowledged_index");
            assert!(u.next_index == u.match_index.unwrap() + 1, "C09:next_index_follows_match_index");
        }
        Err(e) => {
            assert!(peer_term > leader_term, "C09:success_response_rejected_without_higher_term");
            std::mem::forget(e);
        }
    }
    let ct: Option<u64> = if kani::any() { Some(kani::any()) } else { None };
    let ci: Option<u64> = if kani::any() { Some(kani::any()) } else { None };
    if let Some(x) = ci {
        kani::assume(x < u64::MAX);
    }
    let cur_next: u64 = kani::any();
    let u = h.handle_conflict_response(2, ConflictResult { conflict_term: ct, conflict_index: ci }, &log, cur_next).unwrap();
    assert!(!u.success && u.match_index.is_none(), "C09:conflict_never_raises_match_index");
    assert!(u.next_index >= 1, "C09:next_index_at_least_one");
    kani::cover!(ct.is_some() && ci.is_some() && u.next_index != ci.unwrap(), "conflict term found in leader log");
    kani::cover!(ct.is_none() && ci.is_none(), "no hint");
    std::mem::forget(log);
}
