//! Role-level steps: one event through the REAL role states (Follower / Candidate / Learner / Leader) from a
//! symbolic hard state (C01, C02, C13, C14, C27).
use crate::env::*;
use crate::stubs::*;
use bytes::Bytes;
use d_engine_core::candidate_state::CandidateState;
use d_engine_core::follower_state::FollowerState;
use d_engine_core::leader_state::LeaderState;
use d_engine_core::learner_state::LearnerState;
use d_engine_core::role_state::RaftRoleState;
use d_engine_core::verif_hooks as vh;
use d_engine_core::*;
use d_engine_proto::common::LogId;
use d_engine_proto::server::election::*;
use std::sync::Arc;
use tokio::sync::mpsc;

pub fn any_hard_state() -> HardState {
    let cur: u64 = kani::any();
    let vf = if kani::any() {
        let v = VotedFor { voted_for_id: kani::any(), voted_for_term: kani::any(), committed: kani::any() };
        // representation invariant: a recorded vote never belongs to a term above current_term
        kani::assume(v.voted_for_term <= cur);
        Some(v)
    } else {
        None
    };
    HardState { current_term: cur, voted_for: vf }
}

pub fn same_vote(a: Option<VotedFor>, b: Option<VotedFor>) -> bool {
    match (a, b) {
        (None, None) => true,
        (Some(x), Some(y)) => x.voted_for_id == y.voted_for_id && x.voted_for_term == y.voted_for_term && x.committed == y.committed,
        _ => false,
    }
}

pub fn policy_of(k: u8) -> ReadConsistencyPolicy {
    match k % 3 {
        0 => ReadConsistencyPolicy::LeaseRead,
        1 => ReadConsistencyPolicy::LinearizableRead,
        _ => ReadConsistencyPolicy::EventualConsistency,
    }
}
pub fn is_eventual(p: &ReadConsistencyPolicy) -> bool {
    matches!(p, ReadConsistencyPolicy::EventualConsistency)
}

/// config with symbolic read-consistency section (everything else default)
pub fn cfg_with_read_policy(default_k: u8, allow_override: bool) -> Arc<RaftNodeConfig> {
    let mut c = RaftNodeConfig::default();
    c.raft.read_consistency.default_policy = policy_of(default_k);
    c.raft.read_consistency.allow_client_override = allow_override;
    Arc::new(c)
}

pub enum Rl {
    Follower,
    Candidate,
    Learner,
}

/// C13 + C14 on the non-leader roles: the real `RaftRoleState::push_client_cmd` (trait default, shared by
/// Follower / Candidate / Learner) for every (default policy, override flag, client policy) and for writes.
fn nonleader_cmd_step(role: Rl) {
    let default_k: u8 = kani::any();
    kani::assume(default_k < 3);
    let allow: bool = kani::any();
    let cfg = cfg_with_read_policy(default_k, allow);
    let ctx = mk_ctx(VLog::empty(), VMem::new(3, 2, 0), cfg.clone());
    ctx.storage.raft_log.i.m().allow_write = false; // any log mutation fails the harness
    let hs = any_hard_state();
    match role {
        Rl::Follower => {
            let mut f = FollowerState::<VT>::new(1, cfg.clone(), Some(hs), None);
            nonleader_cmd_on(&mut f, &ctx, default_k, allow);
            std::mem::forget(f);
        }
        Rl::Candidate => {
            let f = FollowerState::<VT>::new(1, cfg.clone(), Some(hs), None);
            let mut c = CandidateState::<VT>::from(&f);
            nonleader_cmd_on(&mut c, &ctx, default_k, allow);
            std::mem::forget(f);
            std::mem::forget(c);
        }
        Rl::Learner => {
            let mut l = LearnerState::<VT>::new(1, cfg.clone());
            nonleader_cmd_on(&mut l, &ctx, default_k, allow);
            std::mem::forget(l);
        }
    }
    std::mem::forget(ctx);
    std::mem::forget(cfg);
}
fn nonleader_cmd_on<S: RaftRoleState<T = VT>>(st: &mut S, ctx: &RaftContext<VT>, default_k: u8, allow: bool) {
    let is_write: bool = kani::any();
    let (tx, rx) = MaybeCloneOneshot::new();
    let has_client: bool = kani::any();
    let client_k: u8 = kani::any();
    kani::assume(client_k < 3);
    let cmd = if is_write {
        let has_cmd: bool = kani::any();
        ClientCmd::Propose(
            ClientWriteRequest { client_id: 7, command: if has_cmd { Some(WriteOperation::Delete { key: Bytes::from_static(b"k") }) } else { None } },
            tx,
        )
    } else {
        ClientCmd::Read(
            ClientReadRequest { client_id: 7, keys: Vec::new(), consistency_policy: if has_client { Some(policy_of(client_k)) } else { None } },
            tx,
        )
    };
    st.push_client_cmd(cmd, ctx);
    let reply = run_ready(rx);
    let reads = *ctx.handlers.state_machine_handler.reads.r();
    let effective = if has_client && allow { policy_of(client_k) } else { policy_of(default_k) };
    kani::cover!(!is_write && reads == 1, "eventual read served locally by a non-leader");
    kani::cover!(!is_write && reads == 0 && has_client && !allow, "client policy ignored: override disabled");
    kani::cover!(is_write, "write rejected");
    match reply {
        Ok(Ok(resp)) => {
            assert!(!is_write, "C14:non_leader_answered_a_write_with_success");
            assert!(is_eventual(&effective), "C13:non_leader_served_a_read_that_is_not_eventual");
            assert!(reads == 1, "C13:read_reply_without_state_machine_read");
            std::mem::forget(resp);
        }
        Ok(Err(status)) => {
            assert!(status.code() == tonic::Code::FailedPrecondition, "C13:non_leader_rejection_is_not_failed_precondition");
            assert!(reads == 0, "C13:rejected_read_touched_the_state_machine");
            if !is_write {
                assert!(!is_eventual(&effective), "C13:eventual_read_rejected_by_non_leader");
            }
            std::mem::forget(status);
        }
        Err(_) => assert!(false, "C13:client_command_dropped_without_reply"),
    }
    assert!(ctx.storage.raft_log.i.r().writes == 0, "C14:rejected_write_reached_the_log");
}

macro_rules! role_harness {
    ($name:ident, $body:expr) => {
        #[kani::proof]
        #[kani::stub(std_catch_unwind, cu)]
        #[kani::stub(tracing::level_filters::LevelFilter::current, stub_level_off)]
        #[kani::stub(tracing::callsite::DefaultCallsite::register, stub_callsite_register)]
        #[kani::stub(tokio::task::coop::poll_proceed, stub_poll_proceed)]
        #[kani::stub(std::time::Instant::now, fixed_std_now)]
        #[kani::stub(tokio::time::Instant::now, fixed_tokio_now)]
        #[kani::stub(vh::ElectionTimer::random_duration, fixed_random_duration)]
        #[kani::stub(std::fmt::format, stub_format)]
        #[kani::stub(tokio::sync::mpsc::UnboundedSender::send, stub_send)]
        #[kani::unwind(2)]
        pub fn $name() {
            $body
        }
    };
}

role_harness!(c13_follower_client_cmd, nonleader_cmd_step(Rl::Follower));
role_harness!(c13_candidate_client_cmd, nonleader_cmd_step(Rl::Candidate));
role_harness!(c13_learner_client_cmd, nonleader_cmd_step(Rl::Learner));

// ------------------------------------------------------------------------------------------
// vote step at role level (C01 / C02 / C27)
// ------------------------------------------------------------------------------------------
pub struct VoteStep {
    pub before: HardState,
    pub after: HardState,
    pub req: VoteRequest,
    pub reply: Option<VoteResponse>,
    pub saved_at_reply: Option<HardState>,
    pub internal_events: usize,
}

/// One `ReceiveVoteRequest` through the real `handle_inbound_event` of a concrete role state (STATIC dispatch: a
/// `Box<dyn RaftRoleState>` makes CBMC consider every role's implementation at each call).
fn vote_step_on<S: RaftRoleState<T = VT>>(st: &mut S, ctx: &RaftContext<VT>) -> VoteStep {
    let before = st.shared_state().hard_state;
    let req = VoteRequest { term: kani::any(), candidate_id: kani::any(), last_log_index: kani::any(), last_log_term: kani::any() };
    let (tx, rx) = MaybeCloneOneshot::new();
    let (itx, irx) = mpsc::unbounded_channel::<InternalEvent>();
    unsafe {
        crate::stubs::NEVS = 0;
    }
    let r = run_ready(st.handle_inbound_event(InboundEvent::ReceiveVoteRequest(req, tx), ctx, itx.clone()));
    std::mem::forget(r);
    let reply = match run_ready(rx) {
        Ok(Ok(v)) => Some(v),
        other => {
            std::mem::forget(other);
            None
        }
    };
    let after = st.shared_state().hard_state;
    let saved_at_reply = ctx.storage.raft_log.i.r().saved;
    let internal_events = unsafe { crate::stubs::NEVS };
    std::mem::forget(itx);
    std::mem::forget(irx);
    VoteStep { before, after, req, reply, saved_at_reply, internal_events }
}
fn vote_step(role: Rl) -> VoteStep {
    let cfg = shared_default_config();
    let ctx = mk_ctx(crate::h_election::any_short_log(), VMem::new(3, 2, 0), cfg.clone());
    let hs = any_hard_state();
    let s = match role {
        Rl::Follower => {
            let mut f = FollowerState::<VT>::new(1, cfg.clone(), Some(hs), None);
            let s = vote_step_on(&mut f, &ctx);
            std::mem::forget(f);
            s
        }
        Rl::Candidate => {
            let f = FollowerState::<VT>::new(1, cfg.clone(), Some(hs), None);
            let mut c = CandidateState::<VT>::from(&f);
            let s = vote_step_on(&mut c, &ctx);
            std::mem::forget(f);
            std::mem::forget(c);
            s
        }
        Rl::Learner => {
            let mut l = LearnerState::<VT>::new(1, cfg.clone());
            l.shared_state.hard_state = hs;
            let s = vote_step_on(&mut l, &ctx);
            std::mem::forget(l);
            s
        }
    };
    std::mem::forget(ctx);
    std::mem::forget(cfg);
    s
}

fn vote_step_oracle(s: &VoteStep) {
    // term never decreases (C02)
    assert!(s.after.current_term >= s.before.current_term, "C02:current_term_decreased");
    if let Some(r) = s.reply {
        if r.vote_granted {
            // the grant is recorded in the hard state before the reply exists
            let v = s.after.voted_for;
            assert!(v.is_some(), "C02:granted_vote_not_recorded");
            let v = v.unwrap();
            assert!(v.voted_for_id == s.req.candidate_id && v.voted_for_term == s.req.term, "C01:granted_vote_recorded_for_someone_else");
            assert!(s.after.current_term == s.req.term, "C02:granted_vote_in_a_term_other_than_current");
            // vote-once: an earlier vote of the very same term can only be repeated
            if let Some(old) = s.before.voted_for {
                if old.voted_for_term == s.req.term {
                    assert!(old.voted_for_id == s.req.candidate_id, "C01:second_vote_in_same_term_for_a_different_candidate");
                }
            }
        } else {
            // a refusal never changes who we voted for in the current term
            if s.after.current_term == s.before.current_term {
                assert!(same_vote(s.before.voted_for, s.after.voted_for), "C02:vote_changed_by_a_refused_request");
            }
        }
    }
}

role_harness!(c01_follower_vote_step, {
    let s = vote_step(Rl::Follower);
    kani::cover!(s.reply.map_or(false, |r| r.vote_granted) && s.req.term > s.before.current_term, "follower grants in a higher term");
    kani::cover!(s.reply.map_or(false, |r| r.vote_granted) && s.req.term == s.before.current_term, "follower grants at its current term");
    kani::cover!(s.reply.map_or(false, |r| !r.vote_granted) && s.req.term == s.before.current_term && s.before.voted_for.is_some(), "follower refuses: already voted");
    assert!(s.reply.is_some(), "C01:follower_vote_request_without_reply");
    vote_step_oracle(&s);
});

role_harness!(c27_learner_vote_step, {
    let s = vote_step(Rl::Learner);
    kani::cover!(s.req.term > s.before.current_term, "learner adopts a higher term");
    kani::cover!(s.req.term <= s.before.current_term, "learner keeps its term");
    assert!(s.reply.is_some(), "C27:learner_vote_request_without_reply");
    assert!(!s.reply.unwrap().vote_granted, "C27:learner_granted_a_vote");
    assert!(same_vote(s.before.voted_for, s.after.voted_for), "C27:learner_changed_its_vote");
    assert!(s.after.current_term >= s.before.current_term, "C02:current_term_decreased");
    assert!(s.internal_events == 0, "C27:learner_emitted_a_role_change_on_vote_request");
});

// bisection probe: learner vote step with a plain global unwind
#[kani::proof]
#[kani::stub(std_catch_unwind, cu)]
#[kani::stub(tracing::level_filters::LevelFilter::current, stub_level_off)]
#[kani::stub(tracing::callsite::DefaultCallsite::register, stub_callsite_register)]
#[kani::stub(tokio::task::coop::poll_proceed, stub_poll_proceed)]
#[kani::stub(std::time::Instant::now, fixed_std_now)]
#[kani::stub(tokio::time::Instant::now, fixed_tokio_now)]
#[kani::stub(vh::ElectionTimer::random_duration, fixed_random_duration)]
#[kani::stub(std::fmt::format, stub_format)]
#[kani::stub(tokio::sync::mpsc::UnboundedSender::send, stub_send)]
#[kani::unwind(6)]
pub fn probe_c27_u6() {
    let s = vote_step(Rl::Learner);
    kani::cover!(s.req.term > s.before.current_term, "learner adopts a higher term");
    assert!(s.reply.is_some(), "C27:learner_vote_request_without_reply");
    assert!(!s.reply.unwrap().vote_granted, "C27:learner_granted_a_vote");
}
