use crate::env::*;
use crate::stubs::*;
use d_engine_core::*;
use tokio::sync::mpsc::UnboundedSender;
use tokio::sync::mpsc::error::SendError;

#[kani::proof]
#[kani::stub(std_catch_unwind, cu)]
#[kani::stub(tokio::sync::mpsc::UnboundedSender::send, stub_send)]
#[kani::unwind(4)]
fn probe_stub_send() {
    let (tx, rx) = tokio::sync::mpsc::unbounded_channel::<InternalEvent>();
    let v: u32 = kani::any();
    tx.send(InternalEvent::BecomeFollower(Some(v))).unwrap();
    unsafe {
        assert!(NEVS == 1);
        match &EVS[0] { Some(InternalEvent::BecomeFollower(Some(x))) => assert!(*x == v), _ => assert!(false) }
    }
    std::mem::forget(tx);
    std::mem::forget(rx);
}

#[kani::proof]
#[kani::stub(std_catch_unwind, cu)]
#[kani::stub(tokio::task::coop::poll_proceed, stub_poll_proceed)]
#[kani::unwind(4)]
fn probe_oneshot() {
    let (tx, rx) = MaybeCloneOneshot::new();
    let v: u32 = kani::any();
    let tx: MaybeCloneOneshotSender<u32> = tx;
    tx.send(v).unwrap();
    let r = run_ready(rx).unwrap();
    assert!(r == v);
}

#[kani::proof]
#[kani::stub(std_catch_unwind, cu)]
#[kani::stub(tokio::task::coop::poll_proceed, stub_poll_proceed)]
#[kani::unwind(4)]
fn probe_mpsc_recv() {
    let (tx, mut rx) = tokio::sync::mpsc::unbounded_channel::<InternalEvent>();
    let v: u32 = kani::any();
    tx.send(InternalEvent::BecomeFollower(Some(v))).unwrap();
    let r = poll_once(std::pin::pin!(rx.recv()));
    match r { Some(Some(InternalEvent::BecomeFollower(Some(x)))) => assert!(x == v), _ => assert!(false) }
    let r2 = poll_once(std::pin::pin!(rx.recv()));
    assert!(r2.is_none());
    std::mem::forget(tx);
    std::mem::forget(rx);
}

#[kani::proof]
#[kani::stub(std_catch_unwind, cu)]
#[kani::unwind(7)]
fn probe_default_cfg() {
    let c = shared_default_config();
    assert!(c.raft.election.election_timeout_min == 500);
    kani::cover!(true, "reached");
    std::mem::forget(c);
}

#[kani::proof]
#[kani::stub(std_catch_unwind, cu)]
#[kani::stub(tracing::level_filters::LevelFilter::current, stub_level_off)]
#[kani::stub(tracing::callsite::DefaultCallsite::register, stub_callsite_register)]
#[kani::stub(std::hash::RandomState::new, stub_random_state_new)]
#[kani::stub(std::fmt::format, stub_format)]
#[kani::unwind(2)]
fn probe_bcast_silent() {
    let o = crate::h_election::drive_broadcast(b"S");
    kani::cover!(!o.ok, "lost");
}
#[kani::proof]
#[kani::stub(std_catch_unwind, cu)]
#[kani::stub(tracing::level_filters::LevelFilter::current, stub_level_off)]
#[kani::stub(tracing::callsite::DefaultCallsite::register, stub_callsite_register)]
#[kani::stub(std::hash::RandomState::new, stub_random_state_new)]
#[kani::stub(std::fmt::format, stub_format)]
#[kani::unwind(2)]
fn probe_bcast_none() {
    let o = crate::h_election::drive_broadcast(b"");
    kani::cover!(o.ok, "won");
}

#[kani::proof]
#[kani::stub(std_catch_unwind, cu)]
#[kani::stub(tracing::level_filters::LevelFilter::current, stub_level_off)]
#[kani::stub(tracing::callsite::DefaultCallsite::register, stub_callsite_register)]
#[kani::stub(std::hash::RandomState::new, stub_random_state_new)]
#[kani::stub(std::fmt::format, stub_format)]
#[kani::unwind(7)]
fn probe_b1() {
    let mem = std::sync::Arc::new(VMem::new(1, 0, 0));
    let r = run_ready(mem.is_single_node_cluster());
    assert!(r);
    kani::cover!(r, "x");
    std::mem::forget(mem);
}
#[kani::proof]
#[kani::stub(std_catch_unwind, cu)]
#[kani::stub(tracing::level_filters::LevelFilter::current, stub_level_off)]
#[kani::stub(tracing::callsite::DefaultCallsite::register, stub_callsite_register)]
#[kani::stub(std::hash::RandomState::new, stub_random_state_new)]
#[kani::stub(std::fmt::format, stub_format)]
#[kani::unwind(7)]
fn probe_b2() {
    let mem = std::sync::Arc::new(VMem::new(1, 0, 0));
    let tr = std::sync::Arc::new(VTr::new());
    let log = std::sync::Arc::new(VLog::empty());
    let settings = shared_default_config();
    let h = ElectionHandler::<VT>::new(1);
    let r = run_ready(h.broadcast_vote_requests(5, mem.clone(), &log, &tr, &settings));
    assert!(r.is_ok());
    kani::cover!(r.is_ok(), "x");
    std::mem::forget(r);
    std::mem::forget(mem);
    std::mem::forget(tr);
    std::mem::forget(log);
    std::mem::forget(settings);
}
#[kani::proof]
#[kani::stub(std_catch_unwind, cu)]
#[kani::stub(tracing::level_filters::LevelFilter::current, stub_level_off)]
#[kani::stub(tracing::callsite::DefaultCallsite::register, stub_callsite_register)]
#[kani::stub(std::hash::RandomState::new, stub_random_state_new)]
#[kani::stub(std::fmt::format, stub_format)]
#[kani::unwind(7)]
fn probe_b3() {
    let mem = std::sync::Arc::new(VMem::new(3, 0, 0));
    let tr = std::sync::Arc::new(VTr::new());
    let log = std::sync::Arc::new(VLog::empty());
    let settings = shared_default_config();
    let h = ElectionHandler::<VT>::new(1);
    let r = run_ready(h.broadcast_vote_requests(5, mem.clone(), &log, &tr, &settings));
    assert!(r.is_err());
    kani::cover!(r.is_err(), "x");
    std::mem::forget(r);
    std::mem::forget(mem);
    std::mem::forget(tr);
    std::mem::forget(log);
    std::mem::forget(settings);
}

// b4: same as b2 but a panic marker right after the call; + transport stub that must not be reached
#[kani::proof]
#[kani::stub(std_catch_unwind, cu)]
#[kani::stub(tracing::level_filters::LevelFilter::current, stub_level_off)]
#[kani::stub(tracing::callsite::DefaultCallsite::register, stub_callsite_register)]
#[kani::stub(std::hash::RandomState::new, stub_random_state_new)]
#[kani::stub(std::fmt::format, stub_format)]
#[kani::unwind(3)]
fn probe_b4() {
    let mem = std::sync::Arc::new(VMem::new(1, 0, 0));
    let tr = std::sync::Arc::new(VTr::new());
    let log = std::sync::Arc::new(VLog::empty());
    let settings: std::sync::Arc<RaftNodeConfig> = unsafe { std::mem::transmute(std::sync::Arc::new(std::mem::MaybeUninit::<RaftNodeConfig>::uninit())) };
    let h = ElectionHandler::<VT>::new(1);
    let r = run_ready(h.broadcast_vote_requests(5, mem.clone(), &log, &tr, &settings));
    assert!(r.is_ok());
    kani::cover!(r.is_ok(), "x");
    std::mem::forget(r);
    std::mem::forget(mem);
    std::mem::forget(tr);
    std::mem::forget(log);
    std::mem::forget(settings);
}

// ---------------- cost bisection probes (role level) ----------------
use d_engine_core::verif_hooks as vh;
use d_engine_core::role_state::RaftRoleState;
use d_engine_core::follower_state::FollowerState;
use d_engine_proto::server::election::*;
fn mk_raft_p(term: u64, vf: Option<VotedFor>, log: VLog) -> Raft<VT> {
    let cfg = std::sync::Arc::new(RaftNodeConfig::default());
    let role = RaftRole::Follower(Box::new(FollowerState::<VT>::new(1, cfg.clone(), Some(HardState { current_term: term, voted_for: vf }), None)));
    let (itx, irx) = tokio::sync::mpsc::unbounded_channel();
    let (etx, erx) = tokio::sync::mpsc::channel(8);
    let (ctx_, crx) = tokio::sync::mpsc::channel(8);
    let (_stx, srx) = tokio::sync::watch::channel(());
    let sp = SignalParams::new(itx, irx, etx, erx, ctx_, crx, srx);
    let storage = RaftStorageHandles::<VT> { raft_log: std::sync::Arc::new(log), state_machine: std::sync::Arc::new(VSm::new(0)) };
    let handlers = RaftCoreHandlers::<VT> { election_handler: ElectionHandler::new(1), replication_handler: ReplicationHandler::new(1), state_machine_handler: std::sync::Arc::new(VSmh::new()), purge_executor: std::sync::Arc::new(VPurge) };
    Raft::new(1, role, storage, VTr::new(), handlers, std::sync::Arc::new(VMem::new(3, 2, 0)), sp, cfg)
}
fn p9_body(log: VLog) {
    let term: u64 = kani::any();
    kani::assume(term < u64::MAX - 2);
    let mut raft = mk_raft_p(term, None, log);
    let req = VoteRequest { term: kani::any(), candidate_id: kani::any(), last_log_index: kani::any(), last_log_term: kani::any() };
    let (tx, rx) = MaybeCloneOneshot::new();
    let itx = raft.internal_event_sender();
    let _ = run_ready(vh::role_state_mut(&mut raft.role).handle_inbound_event(InboundEvent::ReceiveVoteRequest(req, tx), &raft.ctx, itx));
    let resp = run_ready(rx).unwrap().unwrap();
    let hs = vh::role_state(&raft.role).shared_state().hard_state;
    assert!(hs.current_term >= term);
    if resp.vote_granted {
        assert!(hs.current_term == req.term);
        assert!(hs.voted_for.map(|v| v.voted_for_id) == Some(req.candidate_id));
    }
    kani::cover!(resp.vote_granted);
    std::mem::forget(raft);
}
// V1: the design-stage probe shape (empty log, original stubs, unwind 6)
#[kani::proof]
#[kani::stub(std_catch_unwind, cu)]
#[kani::stub(tokio::time::Instant::now, fixed_tokio_now)]
#[kani::stub(std::time::Instant::now, fixed_std_now)]
#[kani::stub(vh::ElectionTimer::random_duration, fixed_random_duration)]
#[kani::unwind(6)]
fn probe_v1() {
    p9_body(VLog::empty());
}
// V2: V1 + tracing off
#[kani::proof]
#[kani::stub(std_catch_unwind, cu)]
#[kani::stub(tokio::time::Instant::now, fixed_tokio_now)]
#[kani::stub(std::time::Instant::now, fixed_std_now)]
#[kani::stub(vh::ElectionTimer::random_duration, fixed_random_duration)]
#[kani::stub(tracing::level_filters::LevelFilter::current, stub_level_off)]
#[kani::stub(tracing::callsite::DefaultCallsite::register, stub_callsite_register)]
#[kani::unwind(6)]
fn probe_v2() {
    p9_body(VLog::empty());
}
// V3: V1 with symbolic short log
#[kani::proof]
#[kani::stub(std_catch_unwind, cu)]
#[kani::stub(tokio::time::Instant::now, fixed_tokio_now)]
#[kani::stub(std::time::Instant::now, fixed_std_now)]
#[kani::stub(vh::ElectionTimer::random_duration, fixed_random_duration)]
#[kani::unwind(6)]
fn probe_v3() {
    p9_body(crate::h_election::any_short_log());
}
// V4: V1 + stub_send + poll_proceed + format
#[kani::proof]
#[kani::stub(std_catch_unwind, cu)]
#[kani::stub(tokio::time::Instant::now, fixed_tokio_now)]
#[kani::stub(std::time::Instant::now, fixed_std_now)]
#[kani::stub(vh::ElectionTimer::random_duration, fixed_random_duration)]
#[kani::stub(tokio::task::coop::poll_proceed, stub_poll_proceed)]
#[kani::stub(std::fmt::format, stub_format)]
#[kani::stub(tokio::sync::mpsc::UnboundedSender::send, stub_send)]
#[kani::unwind(6)]
fn probe_v4() {
    p9_body(VLog::empty());
}

#[kani::proof]
#[kani::stub(std_catch_unwind, cu)]
#[kani::stub(tracing::level_filters::LevelFilter::current, stub_level_off)]
#[kani::stub(tracing::callsite::DefaultCallsite::register, stub_callsite_register)]
#[kani::unwind(6)]
fn probe_c03_u6() {
    let initial: usize = kani::any();
    kani::assume(initial >= 1 && initial <= 5);
    let mem = std::sync::Arc::new(VMem::new(initial, 0, 0));
    let single = run_ready(mem.is_single_node_cluster());
    kani::cover!(single, "single");
    if single { assert!(initial == 1); }
    std::mem::forget(mem);
}

#[kani::proof]
#[kani::unwind(6)]
fn probe_nm_vec() {
    use d_engine_proto::server::cluster::NodeMeta;
    let mut v: Vec<NodeMeta> = Vec::with_capacity(4);
    let n: usize = kani::any();
    kani::assume(n <= 1);
    if n == 1 {
        v.push(NodeMeta { id: 2, address: String::new(), role: 1, status: 2 });
    }
    assert!(v.len() == n);
    kani::cover!(v.is_empty(), "empty");
}
#[kani::proof]
#[kani::unwind(6)]
fn probe_nm_vec0() {
    use d_engine_proto::server::cluster::NodeMeta;
    let v: Vec<NodeMeta> = Vec::with_capacity(4);
    assert!(v.is_empty());
    kani::cover!(v.is_empty(), "empty");
}

#[kani::proof]
#[kani::stub(std_catch_unwind, cu)]
#[kani::unwind(6)]
fn probe_voters_direct() {
    let mem = std::sync::Arc::new(VMem::new(1, 0, 0));
    let v = run_ready(mem.voters());
    assert!(v.is_empty());
    kani::cover!(v.is_empty(), "empty");
    std::mem::forget(mem);
}
#[kani::proof]
#[kani::stub(std_catch_unwind, cu)]
#[kani::unwind(6)]
fn probe_voters_direct_forget() {
    let mem = std::sync::Arc::new(VMem::new(1, 0, 0));
    let v = run_ready(mem.voters());
    assert!(v.is_empty());
    kani::cover!(v.is_empty(), "empty");
    std::mem::forget(v);
    std::mem::forget(mem);
}

#[kani::proof]
#[kani::unwind(6)]
fn probe_voters_nostub() {
    let mem = std::sync::Arc::new(VMem::new(1, 0, 0));
    let v = run_ready(mem.voters());
    assert!(v.is_empty());
    kani::cover!(v.is_empty(), "empty");
    std::mem::forget(mem);
}

struct PM;
#[async_trait::async_trait]
trait PT: Send + Sync { async fn vs(&self) -> Vec<d_engine_proto::server::cluster::NodeMeta>; }
#[async_trait::async_trait]
impl PT for PM {
    async fn vs(&self) -> Vec<d_engine_proto::server::cluster::NodeMeta> { Vec::with_capacity(4) }
}
#[kani::proof]
#[kani::unwind(6)]
fn probe_local_trait_vec() {
    let v = run_ready(PM.vs());
    assert!(v.is_empty());
    kani::cover!(v.is_empty(), "empty");
}
struct PM2;
#[async_trait::async_trait]
trait PT2: Send + Sync { async fn vs(&self) -> Vec<u64>; }
#[async_trait::async_trait]
impl PT2 for PM2 {
    async fn vs(&self) -> Vec<u64> { Vec::with_capacity(4) }
}
#[kani::proof]
#[kani::unwind(6)]
fn probe_local_trait_vec_u64() {
    let v = run_ready(PM2.vs());
    assert!(v.is_empty());
    kani::cover!(v.is_empty(), "empty");
}
