use crate::env::*;
use crate::stubs::*;
use d_engine_core::*;
use tokio::sync::mpsc::UnboundedSender;
use tokio::sync::mpsc::error::SendError;

pub static mut EVS: [Option<InternalEvent>; 4] = [None, None, None, None];
pub static mut NEVS: usize = 0;

pub fn stub_send<T>(_s: &UnboundedSender<T>, message: T) -> std::result::Result<(), SendError<T>> {
    if std::mem::size_of::<T>() == std::mem::size_of::<InternalEvent>()
        && std::mem::align_of::<T>() == std::mem::align_of::<InternalEvent>()
    {
        unsafe {
            let ev: InternalEvent = std::ptr::read(&message as *const T as *const InternalEvent);
            std::mem::forget(message);
            assert!(NEVS < 4);
            EVS[NEVS] = Some(ev);
            NEVS += 1;
        }
    } else {
        std::mem::forget(message);
    }
    Ok(())
}

#[kani::proof]
#[kani::stub(std_catch_unwind, cu)]
#[kani::stub(tokio::sync::mpsc::UnboundedSender::send, stub_send)]
#[kani::unwind(4)]
fn probe_stub_send() {
    let (tx, rx) = tokio::sync::mpsc::unbounded_channel::<InternalEvent>();
    let v: u32 = kani::any();
    tx.send(InternalEvent::BecomeFollower(Some(v))).unwrap();
    unsafe {
        assert!(NEVS == 1);
        match &EVS[0] { Some(InternalEvent::BecomeFollower(Some(x))) => assert!(*x == v), _ => assert!(false) }
    }
    std::mem::forget(tx);
    std::mem::forget(rx);
}

#[kani::proof]
#[kani::stub(std_catch_unwind, cu)]
#[kani::stub(tokio::task::coop::poll_proceed, stub_poll_proceed)]
#[kani::unwind(4)]
fn probe_oneshot() {
    let (tx, rx) = MaybeCloneOneshot::new();
    let v: u32 = kani::any();
    let tx: MaybeCloneOneshotSender<u32> = tx;
    tx.send(v).unwrap();
    let r = run_ready(rx).unwrap();
    assert!(r == v);
}

#[kani::proof]
#[kani::stub(std_catch_unwind, cu)]
#[kani::stub(tokio::task::coop::poll_proceed, stub_poll_proceed)]
#[kani::unwind(4)]
fn probe_mpsc_recv() {
    let (tx, mut rx) = tokio::sync::mpsc::unbounded_channel::<InternalEvent>();
    let v: u32 = kani::any();
    tx.send(InternalEvent::BecomeFollower(Some(v))).unwrap();
    let r = poll_once(std::pin::pin!(rx.recv()));
    match r { Some(Some(InternalEvent::BecomeFollower(Some(x)))) => assert!(x == v), _ => assert!(false) }
    let r2 = poll_once(std::pin::pin!(rx.recv()));
    assert!(r2.is_none());
    std::mem::forget(tx);
    std::mem::forget(rx);
}

#[kani::proof]
#[kani::stub(std_catch_unwind, cu)]
#[kani::unwind(7)]
fn probe_default_cfg() {
    let c = shared_default_config();
    assert!(c.raft.election.election_timeout_min == 500);
    kani::cover!(true, "reached");
    std::mem::forget(c);
}

#[kani::proof]
#[kani::stub(std_catch_unwind, cu)]
#[kani::stub(tracing::level_filters::LevelFilter::current, stub_level_off)]
#[kani::stub(std::hash::RandomState::new, stub_random_state_new)]
#[kani::stub(std::fmt::format, stub_format)]
#[kani::unwind(2)]
fn probe_bcast_silent() {
    let o = crate::h_election::drive_broadcast(b"S");
    kani::cover!(!o.ok, "lost");
}
#[kani::proof]
#[kani::stub(std_catch_unwind, cu)]
#[kani::stub(tracing::level_filters::LevelFilter::current, stub_level_off)]
#[kani::stub(std::hash::RandomState::new, stub_random_state_new)]
#[kani::stub(std::fmt::format, stub_format)]
#[kani::unwind(2)]
fn probe_bcast_none() {
    let o = crate::h_election::drive_broadcast(b"");
    kani::cover!(o.ok, "won");
}

#[kani::proof]
#[kani::stub(std_catch_unwind, cu)]
#[kani::stub(tracing::level_filters::LevelFilter::current, stub_level_off)]
#[kani::stub(std::hash::RandomState::new, stub_random_state_new)]
#[kani::stub(std::fmt::format, stub_format)]
#[kani::unwind(7)]
fn probe_b1() {
    let mem = std::sync::Arc::new(VMem::new(1, 0, 0));
    let r = run_ready(mem.is_single_node_cluster());
    assert!(r);
    kani::cover!(r, "x");
    std::mem::forget(mem);
}
#[kani::proof]
#[kani::stub(std_catch_unwind, cu)]
#[kani::stub(tracing::level_filters::LevelFilter::current, stub_level_off)]
#[kani::stub(std::hash::RandomState::new, stub_random_state_new)]
#[kani::stub(std::fmt::format, stub_format)]
#[kani::unwind(7)]
fn probe_b2() {
    let mem = std::sync::Arc::new(VMem::new(1, 0, 0));
    let tr = std::sync::Arc::new(VTr::new());
    let log = std::sync::Arc::new(VLog::empty());
    let settings = shared_default_config();
    let h = ElectionHandler::<VT>::new(1);
    let r = run_ready(h.broadcast_vote_requests(5, mem.clone(), &log, &tr, &settings));
    assert!(r.is_ok());
    kani::cover!(r.is_ok(), "x");
    std::mem::forget(r);
    std::mem::forget(mem);
    std::mem::forget(tr);
    std::mem::forget(log);
    std::mem::forget(settings);
}
#[kani::proof]
#[kani::stub(std_catch_unwind, cu)]
#[kani::stub(tracing::level_filters::LevelFilter::current, stub_level_off)]
#[kani::stub(std::hash::RandomState::new, stub_random_state_new)]
#[kani::stub(std::fmt::format, stub_format)]
#[kani::unwind(7)]
fn probe_b3() {
    let mem = std::sync::Arc::new(VMem::new(3, 0, 0));
    let tr = std::sync::Arc::new(VTr::new());
    let log = std::sync::Arc::new(VLog::empty());
    let settings = shared_default_config();
    let h = ElectionHandler::<VT>::new(1);
    let r = run_ready(h.broadcast_vote_requests(5, mem.clone(), &log, &tr, &settings));
    assert!(r.is_err());
    kani::cover!(r.is_err(), "x");
    std::mem::forget(r);
    std::mem::forget(mem);
    std::mem::forget(tr);
    std::mem::forget(log);
    std::mem::forget(settings);
}

// b4: same as b2 but a panic marker right after the call; + transport stub that must not be reached
#[kani::proof]
#[kani::stub(tracing::callsite::DefaultCallsite::register, stub_callsite_register)]
#[kani::stub(std_catch_unwind, cu)]
#[kani::stub(tracing::level_filters::LevelFilter::current, stub_level_off)]
#[kani::stub(std::hash::RandomState::new, stub_random_state_new)]
#[kani::stub(std::fmt::format, stub_format)]
#[kani::unwind(3)]
fn probe_b4() {
    let mem = std::sync::Arc::new(VMem::new(1, 0, 0));
    let tr = std::sync::Arc::new(VTr::new());
    let log = std::sync::Arc::new(VLog::empty());
    let settings: std::sync::Arc<RaftNodeConfig> = unsafe { std::mem::transmute(std::sync::Arc::new(std::mem::MaybeUninit::<RaftNodeConfig>::uninit())) };
    let h = ElectionHandler::<VT>::new(1);
    let r = run_ready(h.broadcast_vote_requests(5, mem.clone(), &log, &tr, &settings));
    assert!(r.is_ok());
    kani::cover!(r.is_ok(), "x");
    std::mem::forget(r);
    std::mem::forget(mem);
    std::mem::forget(tr);
    std::mem::forget(log);
    std::mem::forget(settings);
}
