use crate::env::*;
use crate::stubs::*;
use d_engine_core::*;
use tokio::sync::mpsc::UnboundedSender;
use tokio::sync::mpsc::error::SendError;

pub static mut EVS: [Option<InternalEvent>; 4] = [None, None, None, None];
pub static mut NEVS: usize = 0;

pub fn stub_send<T>(_s: &UnboundedSender<T>, message: T) -> std::result::Result<(), SendError<T>> {
    if std::mem::size_of::<T>() == std::mem::size_of::<InternalEvent>()
        && std::mem::align_of::<T>() == std::mem::align_of::<InternalEvent>()
    {
        unsafe {
            let ev: InternalEvent = std::ptr::read(&message as *const T as *const InternalEvent);
            std::mem::forget(message);
            assert!(NEVS < 4);
            EVS[NEVS] = Some(ev);
            NEVS += 1;
        }
    } else {
        std::mem::forget(message);
    }
    Ok(())
}

#[kani::proof]
#[kani::stub(std_catch_unwind, cu)]
#[kani::stub(tokio::sync::mpsc::UnboundedSender::send, stub_send)]
#[kani::unwind(4)]
fn probe_stub_send() {
    let (tx, rx) = tokio::sync::mpsc::unbounded_channel::<InternalEvent>();
    let v: u32 = kani::any();
    tx.send(InternalEvent::BecomeFollower(Some(v))).unwrap();
    unsafe {
        assert!(NEVS == 1);
        match &EVS[0] { Some(InternalEvent::BecomeFollower(Some(x))) => assert!(*x == v), _ => assert!(false) }
    }
    std::mem::forget(tx);
    std::mem::forget(rx);
}

#[kani::proof]
#[kani::stub(std_catch_unwind, cu)]
#[kani::stub(tokio::task::coop::poll_proceed, stub_poll_proceed)]
#[kani::unwind(4)]
fn probe_oneshot() {
    let (tx, rx) = MaybeCloneOneshot::new();
    let v: u32 = kani::any();
    let tx: MaybeCloneOneshotSender<u32> = tx;
    tx.send(v).unwrap();
    let r = run_ready(rx).unwrap();
    assert!(r == v);
}

#[kani::proof]
#[kani::stub(std_catch_unwind, cu)]
#[kani::stub(tokio::task::coop::poll_proceed, stub_poll_proceed)]
#[kani::unwind(4)]
fn probe_mpsc_recv() {
    let (tx, mut rx) = tokio::sync::mpsc::unbounded_channel::<InternalEvent>();
    let v: u32 = kani::any();
    tx.send(InternalEvent::BecomeFollower(Some(v))).unwrap();
    let r = poll_once(std::pin::pin!(rx.recv()));
    match r { Some(Some(InternalEvent::BecomeFollower(Some(x)))) => assert!(x == v), _ => assert!(false) }
    let r2 = poll_once(std::pin::pin!(rx.recv()));
    assert!(r2.is_none());
    std::mem::forget(tx);
    std::mem::forget(rx);
}
