//! Environment stubs shared by every harness (each one is part of the claim; see DESIGN.md §3.1).
#![allow(dead_code)]
#[allow(unused_imports)]
pub use std::panic::catch_unwind as std_catch_unwind;

/// `catch_unwind` call-through: Kani compiles with panic=abort, so no unwinding exists to catch.
/// Needed because the `catch_unwind` intrinsic reached via tracing / tokio wakers ICEs Kani 0.68.
pub fn cu<F: FnOnce() -> R + std::panic::UnwindSafe, R>(f: F) -> std::thread::Result<R> {
    Ok(f())
}

/// Symbolic, non-decreasing clock (milliseconds since an arbitrary base).
pub static mut CLOCK_MS: u64 = 1_000;

#[cfg(kani)]
fn tick() -> u64 {
    unsafe {
        let adv: u64 = kani::any();
        kani::assume(adv <= 1 << 40);
        let c = CLOCK_MS;
        kani::assume(c <= 1 << 41);
        CLOCK_MS = c + adv;
        CLOCK_MS
    }
}
#[cfg(not(kani))]
fn tick() -> u64 {
    unsafe { CLOCK_MS }
}

pub fn stub_std_now() -> std::time::Instant {
    let base: std::time::Instant = unsafe { std::mem::zeroed() };
    base + std::time::Duration::from_millis(tick())
}
pub fn stub_tokio_now() -> tokio::time::Instant {
    tokio::time::Instant::from_std(stub_std_now())
}
/// Fixed clock variants (for harnesses where time is irrelevant: cheaper).
pub fn fixed_std_now() -> std::time::Instant {
    let base: std::time::Instant = unsafe { std::mem::zeroed() };
    base + std::time::Duration::from_millis(1_000)
}
pub fn fixed_tokio_now() -> tokio::time::Instant {
    tokio::time::Instant::from_std(fixed_std_now())
}
/// `ElectionTimer::random_duration(min,max)`: arbitrary value in [min,max) (contract of rand's random_range).
pub fn stub_random_duration(min: u64, max: u64) -> tokio::time::Duration {
    #[cfg(kani)]
    {
        let v: u64 = kani::any();
        kani::assume(v >= min && v < max);
        return tokio::time::Duration::from_millis(v);
    }
    #[cfg(not(kani))]
    tokio::time::Duration::from_millis(min.min(max))
}
pub fn fixed_random_duration(min: u64, _max: u64) -> tokio::time::Duration {
    tokio::time::Duration::from_millis(min)
}
/// `now_ms()` of read_lease.rs: symbolic non-decreasing milliseconds.
pub fn stub_now_ms() -> u64 {
    tick()
}
/// `alloc::fmt::format`: error paths build messages with format!; message text is never the subject.
pub fn stub_format(_args: std::fmt::Arguments<'_>) -> String {
    String::new()
}
/// tokio's cooperative budget lives in a thread-local with a destructor (unsupported by Kani);
/// outside a runtime the real function returns an unconstrained budget, which is what this returns.
pub fn stub_poll_proceed(_cx: &mut std::task::Context<'_>) -> std::task::Poll<tokio::task::coop::RestoreOnPending> {
    std::task::Poll::Ready(unsafe { std::mem::zeroed() })
}
/// `tracing::level_filters::LevelFilter::current()` -> OFF: every tracing macro / #[instrument] span is guarded by
/// `level <= LevelFilter::current()`, so this makes them statically dead.  Semantically identical to running without a
/// subscriber (which is how the harnesses run anyway); it removes the Debug-formatting code of every logged value from
/// the symbolic execution.
pub fn stub_level_off() -> tracing::level_filters::LevelFilter {
    tracing::level_filters::LevelFilter::OFF
}
/// `std::hash::RandomState::new()` -> fixed keys.  The real one asks the OS for randomness (`getrandom` syscall with a
/// /dev/urandom fallback): foreign calls Kani cannot execute, whose error paths build bit-packed `io::Error`s that CBMC
/// cannot decode (pointer tagging) and therefore "drops" by dispatching over every drop glue in the program.
/// Hash-table behaviour does not depend on the key values (only iteration order does, which no property relies on).
pub fn stub_random_state_new() -> std::hash::RandomState {
    unsafe { std::mem::transmute::<(u64, u64), std::hash::RandomState>((0x0123_4567_89ab_cdef, 0x0fed_cba9_8765_4321)) }
}
/// `tracing::callsite::DefaultCallsite::register` -> Interest::never(): what registration answers when no subscriber
/// is installed (the harnesses install none).  Avoids the global callsite registry (once_cell + RwLock + TLS).
pub fn stub_callsite_register(_c: &'static tracing::callsite::DefaultCallsite) -> tracing::subscriber::Interest {
    tracing::subscriber::Interest::never()
}

// ---------------------------------------------------------------------------------------------------------
// Recording stub for `tokio::sync::mpsc::UnboundedSender::send`: tokio's mpsc *receive* side touches runtime
// thread-locals Kani cannot model, so InternalEvents emitted by a role step are captured here instead
// (FIFO, like the real channel).  Other message types are dropped (forgotten).
use d_engine_core::InternalEvent;
use tokio::sync::mpsc::UnboundedSender;
use tokio::sync::mpsc::error::SendError;
pub static mut EVS: [Option<InternalEvent>; 4] = [None, None, None, None];
pub static mut NEVS: usize = 0;

pub fn stub_send<T>(_s: &UnboundedSender<T>, message: T) -> std::result::Result<(), SendError<T>> {
    if std::mem::size_of::<T>() == std::mem::size_of::<InternalEvent>()
        && std::mem::align_of::<T>() == std::mem::align_of::<InternalEvent>()
    {
        unsafe {
            let ev: InternalEvent = std::ptr::read(&message as *const T as *const InternalEvent);
            std::mem::forget(message);
            assert!(NEVS < 4);
            EVS[NEVS] = Some(ev);
            NEVS += 1;
        }
    } else {
        std::mem::forget(message);
    }
    Ok(())
}


// ---------------------------------------------------------------------------------------------------------
// Filesystem stubs for `config::validate_directory` (existence / create / write-permission probe): the directory
// check is not the subject of any claimed property; every call "succeeds" so the numeric checks after it are reached.
pub fn stub_path_exists(_p: &std::path::Path) -> bool {
    true
}
pub fn stub_fs_write<P: AsRef<std::path::Path>, C: AsRef<[u8]>>(_p: P, _c: C) -> std::io::Result<()> {
    Ok(())
}
pub fn stub_fs_remove_file<P: AsRef<std::path::Path>>(_p: P) -> std::io::Result<()> {
    Ok(())
}
pub fn stub_fs_create_dir_all<P: AsRef<std::path::Path>>(_p: P) -> std::io::Result<()> {
    Ok(())
}
/// `std::io::_print` (println! in role transitions): output is not the subject.
pub fn stub_print(_a: std::fmt::Arguments<'_>) {}
