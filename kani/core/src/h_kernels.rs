//! More Tier-A kernels: single-node predicate (C03), candidate vote legality (C01), follower commit arithmetic and
//! AppendEntries legality check (C07/C04/C09).
use crate::env::*;
use crate::h_repl::any_log;
use crate::stubs::*;
use d_engine_core::verif_hooks as vh;
use d_engine_core::*;
use d_engine_proto::common::{Entry, LogId};
use d_engine_proto::server::election::*;
use d_engine_proto::server::replication::*;
use std::sync::Arc;

/// C03: the predicate that lets a candidate skip vote collection (`Membership::is_single_node_cluster`, trait
/// default -- the one `RaftMembership` uses) may only hold when the current membership has no other voter.
/// `initial_cluster_size` (1..=5, symbolic) is independent of the current member set.  The member-set SHAPE
/// (number of peers, which of them are learners) is concrete per harness instance: a symbolic-length
/// `Vec<NodeMeta>` makes CBMC run out of memory (measured), see DESIGN.md 3.4.
fn single_node_predicate(npeers: usize, mask: u8) {
    let initial: usize = kani::any();
    kani::assume(initial >= 1 && initial <= 5);
    let mem = Arc::new(VMem::new(initial, npeers, mask));
    let single = run_ready(mem.is_single_node_cluster());
    let nvoters = mem.nvoters();
    kani::cover!(initial == 1, "node bootstrapped as a single-node cluster");
    kani::cover!(initial == 3, "node bootstrapped in a three-node cluster");
    kani::cover!(single || nvoters > 0, "sole voter may skip vote collection / other voters exist");
    if single {
        assert!(nvoters == 0, "C03:vote_collection_skipped_while_other_voters_exist");
        assert!(initial == 1, "C03:multi_node_bootstrap_treated_as_single_node");
    }
    std::mem::forget(mem);
}
macro_rules! c03_shape {
    ($name:ident, $n:expr, $mask:expr) => {
        #[kani::proof]
        #[kani::stub(std_catch_unwind, cu)]
        #[kani::stub(tracing::level_filters::LevelFilter::current, stub_level_off)]
        #[kani::stub(tracing::callsite::DefaultCallsite::register, stub_callsite_register)]
        #[kani::unwind(2)]
        pub fn $name() {
            single_node_predicate($n, $mask);
        }
    };
}
/// the same predicate with a fully symbolic member set (0..=4 peers, any subset learners)
#[kani::proof]
#[kani::stub(std_catch_unwind, cu)]
#[kani::stub(tracing::level_filters::LevelFilter::current, stub_level_off)]
#[kani::stub(tracing::callsite::DefaultCallsite::register, stub_callsite_register)]
#[kani::unwind(2)]
pub fn c03_single_node_predicate() {
    let npeers: usize = kani::any();
    kani::assume(npeers <= 4);
    let mask: u8 = kani::any();
    kani::assume((mask as usize) < (1usize << npeers));
    single_node_predicate(npeers, mask);
}
c03_shape!(c03_single_node_predicate_alone, 0, 0);
c03_shape!(c03_single_node_predicate_one_voter, 1, 0);
c03_shape!(c03_single_node_predicate_one_learner, 1, 1);
c03_shape!(c03_single_node_predicate_two_voters, 2, 0);
c03_shape!(c03_single_node_predicate_voter_and_learner, 2, 2);
c03_shape!(c03_single_node_predicate_four_voters, 4, 0);

/// C01 (candidate side): `check_vote_request_is_legal` decides whether a Candidate steps down and lets the
/// Follower path grant the vote.  A candidate has voted for itself in its current term, so the request must be
/// from a strictly higher term; and the log restriction applies.
#[kani::proof]
#[kani::stub(std_catch_unwind, cu)]
#[kani::stub(tracing::level_filters::LevelFilter::current, stub_level_off)]
#[kani::stub(tracing::callsite::DefaultCallsite::register, stub_callsite_register)]
#[kani::unwind(2)]
pub fn c01_candidate_vote_legality() {
    let h = ElectionHandler::<VT>::new(1);
    let req = VoteRequest { term: kani::any(), candidate_id: kani::any(), last_log_index: kani::any(), last_log_term: kani::any() };
    let cur: u64 = kani::any();
    let lli: u64 = kani::any();
    let llt: u64 = kani::any();
    let vf = crate::h_election::any_voted_for();
    if let Some(v) = vf {
        kani::assume(v.voted_for_term <= cur);
    }
    let legal = h.check_vote_request_is_legal(&req, cur, lli, llt, vf);
    kani::cover!(legal && vf.is_some(), "legal although a vote is recorded");
    kani::cover!(!legal && req.term > cur, "higher term but stale log");
    if legal {
        assert!(req.term >= cur, "C01:stale_term_vote_request_accepted");
        assert!(req.last_log_term > llt || (req.last_log_term == llt && req.last_log_index >= lli), "C05:vote_request_from_stale_log_accepted");
        if let Some(v) = vf {
            if v.voted_for_id != 0 && v.voted_for_term == cur {
                // a vote of the current term is on record (a Candidate always has its self-vote): only a HIGHER term may pass
                assert!(req.term > cur, "C01:candidate_steps_down_for_same_term_vote_request");
            }
        }
    }
}

/// C07: the follower's commit arithmetic.
#[kani::proof]
#[kani::stub(std_catch_unwind, cu)]
#[kani::stub(tracing::level_filters::LevelFilter::current, stub_level_off)]
#[kani::stub(tracing::callsite::DefaultCallsite::register, stub_callsite_register)]
#[kani::unwind(2)]
pub fn c07_follower_commit_arithmetic() {
    let my: u64 = kani::any();
    let last: u64 = kani::any();
    let lc: u64 = kani::any();
    kani::assume(last >= my); // invariant: committed entries are in the log
    let r = <ReplicationHandler<VT> as ReplicationCore<VT>>::if_update_commit_index_as_follower(my, last, lc);
    match r {
        Some(c) => {
            assert!(lc > my, "C07:commit_update_without_higher_leader_commit");
            assert!(c <= lc, "C07:follower_commit_beyond_leader_commit");
            assert!(c <= last, "C07:follower_commit_beyond_its_log");
            assert!(c >= my, "C07:follower_commit_index_decreased");
            assert!(c == lc || c == last, "C07:commit_is_min_of_leader_commit_and_last_entry");
        }
        None => assert!(lc <= my, "C07:higher_leader_commit_ignored"),
    }
    kani::cover!(r == Some(last) && lc > last, "clamped to the follower's last entry");
    kani::cover!(r == Some(lc) && lc < last, "leader commit below the follower's last entry");
}

/// C04/C07/C09: the real `check_append_entries_request_is_legal` over a symbolic follower log (<= 4 entries).
#[kani::proof]
#[kani::stub(std_catch_unwind, cu)]
#[kani::stub(tracing::level_filters::LevelFilter::current, stub_level_off)]
#[kani::stub(tracing::callsite::DefaultCallsite::register, stub_callsite_register)]
#[kani::stub(std::time::Instant::now, fixed_std_now)]
#[kani::stub(tokio::time::Instant::now, fixed_tokio_now)]
#[kani::unwind(2)]
pub fn c07_append_request_legality() {
    let f = Arc::new(any_log(4));
    let h = ReplicationHandler::<VT>::new(1);
    let my_term: u64 = kani::any();
    let req = AppendEntriesRequest { term: kani::any(), leader_id: 9, prev_log_index: kani::any(), prev_log_term: kani::any(), entries: Vec::new(), leader_commit_index: kani::any() };
    let resp = h.check_append_entries_request_is_legal(my_term, &req, &f);
    let prev = req.prev_log_index;
    kani::cover!(resp.is_success() && prev > 0, "prev entry matches");
    kani::cover!(resp.is_conflict() && prev <= f.len(), "term conflict at prev");
    kani::cover!(resp.is_conflict() && prev > f.len(), "prev beyond the follower's log");
    kani::cover!(resp.is_higher_term(), "stale leader");
    if my_term > req.term {
        assert!(resp.is_higher_term(), "C07:stale_term_request_not_rejected");
    } else if resp.is_success() {
        assert!((prev == 0 && req.prev_log_term == 0) || (prev >= 1 && prev <= f.len() && f.term_at(prev) == req.prev_log_term), "C04:request_accepted_without_matching_prev_entry");
        if let Some(append_entries_response::Result::Success(s)) = resp.result {
            // what is acknowledged before any append: nothing beyond the follower's own log
            if let Some(m) = s.last_match {
                assert!(m.index <= f.len(), "C09:acknowledged_index_beyond_follower_log");
            }
        }
    } else {
        assert!(resp.is_conflict(), "C07:response_is_neither_success_conflict_nor_higher_term");
        assert!(!(prev >= 1 && prev <= f.len() && f.term_at(prev) == req.prev_log_term), "C04:matching_prev_entry_rejected");
        if let Some(append_entries_response::Result::Conflict(c)) = resp.result {
            kani::assume(prev >= 1 || req.prev_log_term == 0); // a request with prev index 0 carries prev term 0 (build_append_request)
            let ci = c.conflict_index.unwrap_or(0);
            assert!(c.conflict_index.is_some(), "C09:conflict_without_index_hint");
            // the hint never points past the rejected prev index: the leader's next_index can only move back
            assert!(ci <= prev, "C09:conflict_hint_beyond_rejected_prev_index");
            if let Some(t) = c.conflict_term {
                assert!(prev <= f.len() && f.term_at(prev) == t, "C09:conflict_term_is_not_follower_term_at_prev");
                assert!(ci >= 1 && f.term_at(ci) == t && (ci == 1 || f.term_at(ci - 1) != t), "C09:conflict_index_is_not_first_index_of_conflict_term");
            } else {
                assert!(ci == f.len() + 1, "C09:missing_prev_hint_is_not_follower_last_plus_one");
            }
        }
    }
    std::mem::forget(f);
    std::mem::forget(req);
}

/// C25 (scoped): the key-range bound used by the RocksDB prefix scan.  `prefix_successor` is a verbatim source
/// slice (the file needs the rocksdb FFI feature to compile as a whole).  For all prefixes and keys of up to 3
/// bytes: a key has the prefix  <=>  prefix <= key and (no upper bound, or key < upper bound); and the upper bound is
/// absent exactly for all-0xFF prefixes (where the caller must fall back to a starts_with guard).
#[kani::proof]
#[kani::unwind(2)]
pub fn c25_prefix_scan_bound() {
    let pl: usize = kani::any();
    let kl: usize = kani::any();
    kani::assume(pl >= 1 && pl <= 3 && kl <= 3);
    let pb: [u8; 3] = kani::any();
    let kb: [u8; 3] = kani::any();
    let p = &pb[..pl];
    let k = &kb[..kl];
    let succ = crate::gen_slices::prefix_successor(p);
    let mut all_ff = true;
    let mut i = 0;
    while i < 3 {
        if i < pl && pb[i] != 0xFF {
            all_ff = false;
        }
        i += 1;
    }
    // k.starts_with(p), spelled out (slice == is a memcmp loop)
    let mut has_prefix = kl >= pl;
    let mut i = 0;
    while i < 3 {
        if i < pl && i < kl && kb[i] != pb[i] {
            has_prefix = false;
        }
        i += 1;
    }
    // lexicographic comparisons on <=3-byte strings
    fn lt(a: &[u8], b: &[u8]) -> bool {
        let mut i = 0;
        while i < 3 {
            if i >= a.len() || i >= b.len() {
                break;
            }
            if a[i] != b[i] {
                return a[i] < b[i];
            }
            i += 1;
        }
        a.len() < b.len()
    }
    let ge_prefix = !lt(k, p);
    kani::cover!(succ.is_none(), "all-0xFF prefix");
    kani::cover!(succ.is_some() && pl == 2 && pb[1] == 0xFF, "carry past a trailing 0xFF");
    kani::cover!(has_prefix && kl == 3, "key under the prefix");
    match &succ {
        None => {
            assert!(all_ff, "C25:no_upper_bound_for_a_prefix_that_has_a_successor");
        }
        Some(u) => {
            assert!(!all_ff, "C25:upper_bound_for_all_0xFF_prefix");
            assert!(u.len() >= 1 && u.len() <= pl, "C25:upper_bound_longer_than_prefix");
            let in_range = ge_prefix && lt(k, &u[..]);
            assert!(in_range == has_prefix, "C25:scan_range_differs_from_the_set_of_keys_with_the_prefix");
        }
    }
    std::mem::forget(succ);
}

/// C07: the real async `handle_append_entries` on an entry-less request (heartbeat / probe), every follower log of
/// <= 4 entries, every prev index/term, leader commit and follower commit: a request that is NOT accepted never
/// moves the commit index; an accepted one moves it to min(leader_commit, last entry) only when the leader's
/// commit is ahead, and acknowledges the follower's own last log id.
#[kani::proof]
#[kani::stub(std_catch_unwind, cu)]
#[kani::stub(tracing::level_filters::LevelFilter::current, stub_level_off)]
#[kani::stub(tracing::callsite::DefaultCallsite::register, stub_callsite_register)]
#[kani::stub(std::time::Instant::now, fixed_std_now)]
#[kani::stub(tokio::time::Instant::now, fixed_tokio_now)]
#[kani::unwind(2)]
pub fn c07_heartbeat_commit_rule() {
    // concrete log SHAPE (2 entries), symbolic terms: the symbolic-length variant ran out of memory
    let (t0, t1): (u64, u64) = (kani::any(), kani::any());
    kani::assume(t0 >= 1 && t0 <= t1);
    let f = Arc::new(VLog::new(2, [t0, t1, 0, 0]));
    let h = ReplicationHandler::<VT>::new(1);
    let my_term: u64 = kani::any();
    let my_commit: u64 = kani::any();
    kani::assume(my_commit <= f.len());
    let snap = StateSnapshot { role: 0, current_term: my_term, voted_for: None, commit_index: my_commit };
    let req = AppendEntriesRequest { term: kani::any(), leader_id: 9, prev_log_index: kani::any(), prev_log_term: kani::any(), entries: Vec::with_capacity(1), leader_commit_index: kani::any() };
    kani::assume(req.prev_log_index >= 1 || req.prev_log_term == 0);
    let (prev, pt, lc, rt) = (req.prev_log_index, req.prev_log_term, req.leader_commit_index, req.term);
    let r = run_ready(h.handle_append_entries(req, &snap, &f)).unwrap();
    let resp = r.response;
    let prev_matches = (prev == 0 && pt == 0) || (prev >= 1 && prev <= f.len() && f.term_at(prev) == pt);
    kani::cover!(resp.is_conflict() && lc > my_commit, "rejected probe carrying a higher leader commit");
    kani::cover!(resp.is_success() && r.commit_index_update.is_some(), "accepted heartbeat advances the commit index");
    kani::cover!(resp.is_higher_term(), "stale leader");
    assert!(f.i.r().writes == 0, "C07:entry_less_request_modified_the_log");
    if my_term > rt {
        assert!(resp.is_higher_term() && r.commit_index_update.is_none(), "C07:stale_term_request_moved_commit_or_was_not_rejected");
    } else if !prev_matches {
        assert!(resp.is_conflict(), "C04:request_accepted_without_matching_prev_entry");
        assert!(r.commit_index_update.is_none(), "C07:rejected_request_moved_the_commit_index");
    } else {
        assert!(resp.is_success(), "C04:matching_prev_entry_rejected");
        match r.commit_index_update {
            Some(c) => {
                assert!(lc > my_commit, "C07:commit_update_without_higher_leader_commit");
                assert!(c == if lc < f.len() { lc } else { f.len() }, "C07:commit_is_min_of_leader_commit_and_last_entry");
            }
            None => assert!(lc <= my_commit, "C07:higher_leader_commit_ignored"),
        }
    }
    std::mem::forget(f);
}

/// C25 thorough tier: prefixes and keys of up to 4 bytes.
#[kani::proof]
#[kani::unwind(2)]
pub fn c25_prefix_scan_bound_4bytes() {
    const N: usize = 4;
    let pl: usize = kani::any();
    let kl: usize = kani::any();
    kani::assume(pl >= 1 && pl <= N && kl <= N);
    let pb: [u8; N] = kani::any();
    let kb: [u8; N] = kani::any();
    let p = &pb[..pl];
    let k = &kb[..kl];
    let succ = crate::gen_slices::prefix_successor(p);
    let mut all_ff = true;
    let mut has_prefix = kl >= pl;
    let mut i = 0;
    while i < N {
        if i < pl && pb[i] != 0xFF {
            all_ff = false;
        }
        if i < pl && i < kl && kb[i] != pb[i] {
            has_prefix = false;
        }
        i += 1;
    }
    fn lt(a: &[u8], b: &[u8]) -> bool {
        let mut i = 0;
        while i < N {
            if i >= a.len() || i >= b.len() {
                break;
            }
            if a[i] != b[i] {
                return a[i] < b[i];
            }
            i += 1;
        }
        a.len() < b.len()
    }
    kani::cover!(succ.is_none() && pl == 4, "four 0xFF bytes");
    kani::cover!(succ.is_some() && pl == 4 && pb[3] == 0xFF && pb[2] == 0xFF, "carry past two trailing 0xFF");
    match &succ {
        None => assert!(all_ff, "C25:no_upper_bound_for_a_prefix_that_has_a_successor"),
        Some(u) => {
            assert!(!all_ff, "C25:upper_bound_for_all_0xFF_prefix");
            assert!(u.len() >= 1 && u.len() <= pl, "C25:upper_bound_longer_than_prefix");
            let in_range = !lt(k, p) && lt(k, &u[..]);
            assert!(in_range == has_prefix, "C25:scan_range_differs_from_the_set_of_keys_with_the_prefix");
        }
    }
    std::mem::forget(succ);
}
