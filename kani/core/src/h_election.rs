//! Election kernels driven with the real `ElectionHandler<VT>` (C01, C02, C03, C05).
use crate::env::*;
use crate::stubs::*;
use d_engine_core::verif_hooks as vh;
use d_engine_core::*;
use d_engine_core::candidate_state::CandidateState;
use d_engine_core::follower_state::FollowerState;
use d_engine_core::leader_state::{calculate_safe_batch_size, LeaderState};
use d_engine_core::learner_state::LearnerState;
use d_engine_proto::common::LogId;
use d_engine_proto::server::election::*;
use std::sync::Arc;

pub fn any_voted_for() -> Option<VotedFor> {
    if kani::any() {
        Some(VotedFor { voted_for_id: kani::any(), voted_for_term: kani::any(), committed: kani::any() })
    } else {
        None
    }
}

/// symbolic log of 0..=2 entries (only `last_log_id` matters to elections), terms non-decreasing
pub fn any_short_log() -> VLog {
    let len: u64 = kani::any();
    kani::assume(len <= 2);
    let t0: u64 = kani::any();
    let t1: u64 = kani::any();
    kani::assume(t0 >= 1 && t1 >= t0);
    VLog::new(len, [t0, t1, 0, 0])
}

/// C01/C02/C05 kernel: the real `handle_vote_request`, every (current_term, voted_for, request, last log id)
/// of full 64-bit width.
#[kani::proof]
#[kani::stub(std_catch_unwind, cu)]
#[kani::stub(tracing::level_filters::LevelFilter::current, stub_level_off)]
#[kani::stub(tracing::callsite::DefaultCallsite::register, stub_callsite_register)]
#[kani::stub(std::hash::RandomState::new, stub_random_state_new)]
#[kani::unwind(2)]
pub fn c01_vote_kernel() {
    let log = Arc::new(any_short_log());
    let h = ElectionHandler::<VT>::new(1);
    let cur: u64 = kani::any();
    let vf = any_voted_for();
    // representation invariant of a node's hard state: a recorded vote never belongs to a future term
    if let Some(v) = vf {
        kani::assume(v.voted_for_term <= cur);
    }
    let req = VoteRequest { term: kani::any(), candidate_id: kani::any(), last_log_index: kani::any(), last_log_term: kani::any() };
    let my_last = log.last_log_id().unwrap_or(LogId { index: 0, term: 0 });
    let r = run_ready(h.handle_vote_request(req, cur, vf, &log)).unwrap();
    let granted = r.new_voted_for.is_some();
    // term handling
    match r.term_update {
        Some(t) => assert!(t == req.term && req.term > cur, "C02:term_update_only_to_a_higher_request_term"),
        None => assert!(req.term <= cur, "C02:higher_request_term_always_adopted"),
    }
    if granted {
        let v = r.new_voted_for.unwrap();
        assert!(v.voted_for_id == req.candidate_id && v.voted_for_term == req.term, "C01:recorded_vote_is_for_the_requester_in_the_request_term");
        assert!(req.term >= cur, "C01:never_grants_a_stale_term");
        // election restriction (C05): candidate's log at least as up-to-date as ours
        assert!(
            req.last_log_term > my_last.term || (req.last_log_term == my_last.term && req.last_log_index >= my_last.index),
            "C05:vote_granted_only_to_up_to_date_candidate"
        );
        // vote-once (C01/C02): an existing vote of this very term can only be repeated, never changed
        if req.term == cur {
            if let Some(old) = vf {
                if old.voted_for_term == cur {
                    assert!(old.voted_for_id == req.candidate_id, "C01:second_vote_in_same_term_for_a_different_candidate");
                }
            }
        }
    }
    kani::cover!(granted && req.term == cur && vf.is_none(), "granted at equal term, no prior vote");
    kani::cover!(granted && req.term == cur && vf.is_some(), "granted again to the same candidate");
    kani::cover!(granted && req.term > cur && vf.is_some(), "granted in a higher term despite an old vote");
    kani::cover!(!granted && req.term == cur && vf.is_some(), "refused: already voted");
    kani::cover!(!granted && req.term > cur, "refused for log reasons but term adopted");
    std::mem::forget(log);
}

/// shape code: b'R' = the voter answers (content symbolic), b'S' = silent (no response), b'F' = transport error.
/// The SHAPE is concrete per harness (fixed container shape, DESIGN.md 3.4); the CONTENT is symbolic.
fn plan_of(kind: u8) -> VotePlan {
    match kind {
        b'S' => VotePlan::Silent,
        b'F' => VotePlan::Fail,
        _ => VotePlan::Resp { granted: kani::any(), term: kani::any(), last_log_index: kani::any(), last_log_term: kani::any() },
    }
}

pub struct BroadcastOutcome {
    pub ok: bool,
    pub higher: Option<u64>,
    pub nvoters: usize,
    pub granted: usize,
    pub asked: bool,
    pub initial: usize,
    pub max_resp_term: u64,
}

/// Drive the real `broadcast_vote_requests` with a membership of `npeers` voters (concrete per harness
/// instantiation: the container shape is fixed, see DESIGN.md 3.4), initial cluster size 1..=5 independent of
/// the current voter set, and arbitrary peer behaviour (silent / transport error / any response).
pub fn drive_broadcast(shape: &[u8]) -> BroadcastOutcome {
    let npeers = shape.len();
    let initial: usize = kani::any();
    kani::assume(initial >= 1 && initial <= 5);
    let mem = Arc::new(VMem::new(initial, npeers, 0));
    let nvoters = npeers;
    let tr = Arc::new(VTr::new());
    let mut granted = 0usize;
    let mut max_resp_term = 0u64;
    let mut k = 0;
    while k < nvoters {
        let p = plan_of(shape[k]);
        if let VotePlan::Resp { granted: g, term, .. } = p {
            if g {
                granted += 1;
            }
            if term > max_resp_term {
                max_resp_term = term;
            }
        }
        tr.plan.m()[k] = p;
        k += 1;
    }
    let log = Arc::new(any_short_log());
    let settings = shared_default_config();
    let term: u64 = kani::any();
    let h = ElectionHandler::<VT>::new(1);
    let r = run_ready(h.broadcast_vote_requests(term, mem.clone(), &log, &tr, &settings));
    let asked = *tr.vote_calls.r() > 0;
    let (ok, higher) = match &r {
        Ok(()) => (true, None),
        Err(Error::Consensus(ConsensusError::Election(ElectionError::HigherTerm(t)))) => (false, Some(*t)),
        Err(_) => (false, None),
    };
    if let Some(t) = higher {
        assert!(t > term, "C01:higher_term_error_carries_a_higher_term");
        assert!(t <= max_resp_term, "C01:higher_term_error_comes_from_a_response");
    }
    if asked {
        let q = tr.sent_vote_req.r().unwrap();
        assert!(q.term == term && q.candidate_id == 1, "C01:vote_request_carries_candidate_term_and_id");
        let ll = log.last_log_id().unwrap_or(LogId { index: 0, term: 0 });
        assert!(q.last_log_index == ll.index && q.last_log_term == ll.term, "C05:vote_request_carries_real_last_log_id");
    }
    std::mem::forget(r);
    std::mem::forget(log);
    std::mem::forget(tr);
    std::mem::forget(mem);
    BroadcastOutcome { ok, higher, nvoters, granted, asked, initial, max_resp_term }
}

fn majority_oracle(o: &BroadcastOutcome) {
    kani::cover!(o.ok && o.asked, "election won by votes");
    kani::cover!(!o.ok && o.higher.is_none() && o.asked, "election lost");
    if o.ok && o.nvoters > 0 && o.asked {
        assert!((o.granted + 1) * 2 > o.nvoters + 1, "C01:election_won_without_majority_of_voters");
    }
}
/// C01: winning an election requires granted votes from a strict majority of the current voters (self
/// included) -- except the sole-voter case, which is C03's subject.  One harness per voter-set size.
#[kani::proof]
#[kani::stub(std_catch_unwind, cu)]
#[kani::stub(tracing::level_filters::LevelFilter::current, stub_level_off)]
#[kani::stub(tracing::callsite::DefaultCallsite::register, stub_callsite_register)]
#[kani::stub(std::hash::RandomState::new, stub_random_state_new)]
#[kani::stub(std::fmt::format, stub_format)]
#[kani::unwind(2)]
pub fn c01_election_needs_majority_2voters() {
    let o = drive_broadcast(b"R");
    majority_oracle(&o);
}
#[kani::proof]
#[kani::stub(std_catch_unwind, cu)]
#[kani::stub(tracing::level_filters::LevelFilter::current, stub_level_off)]
#[kani::stub(tracing::callsite::DefaultCallsite::register, stub_callsite_register)]
#[kani::stub(std::hash::RandomState::new, stub_random_state_new)]
#[kani::stub(std::fmt::format, stub_format)]
#[kani::unwind(2)]
pub fn c01_election_needs_majority_3voters() {
    let o = drive_broadcast(b"RR");
    majority_oracle(&o);
    kani::cover!(o.ok && o.granted == 1, "won 2 of 3");
}
#[kani::proof]
#[kani::stub(std_catch_unwind, cu)]
#[kani::stub(tracing::level_filters::LevelFilter::current, stub_level_off)]
#[kani::stub(tracing::callsite::DefaultCallsite::register, stub_callsite_register)]
#[kani::stub(std::hash::RandomState::new, stub_random_state_new)]
#[kani::stub(std::fmt::format, stub_format)]
#[kani::unwind(2)]
pub fn c01_election_needs_majority_4voters() {
    let o = drive_broadcast(b"RRR");
    majority_oracle(&o);
    kani::cover!(!o.ok && o.granted == 1 && o.higher.is_none(), "lost with 2 of 4");
}
#[kani::proof]
#[kani::stub(std_catch_unwind, cu)]
#[kani::stub(tracing::level_filters::LevelFilter::current, stub_level_off)]
#[kani::stub(tracing::callsite::DefaultCallsite::register, stub_callsite_register)]
#[kani::stub(std::hash::RandomState::new, stub_random_state_new)]
#[kani::stub(std::fmt::format, stub_format)]
#[kani::unwind(2)]
pub fn c01_election_needs_majority_5voters() {
    let o = drive_broadcast(b"RRRR");
    majority_oracle(&o);
    kani::cover!(o.ok && o.granted == 2, "won 3 of 5");
    kani::cover!(!o.ok && o.granted == 1 && o.higher.is_none(), "lost with 2 of 5");
}

fn sole_voter_oracle(o: &BroadcastOutcome) {
    kani::cover!(o.initial == 1, "node bootstrapped as a single-node cluster");
    kani::cover!(o.initial > 1, "node bootstrapped in a multi-node cluster");
    if o.ok && !o.asked {
        assert!(o.nvoters == 0, "C03:election_won_without_asking_while_other_voters_exist");
    }
}
/// C03: vote collection is skipped only when there is no other voter.
#[kani::proof]
#[kani::stub(std_catch_unwind, cu)]
#[kani::stub(tracing::level_filters::LevelFilter::current, stub_level_off)]
#[kani::stub(tracing::callsite::DefaultCallsite::register, stub_callsite_register)]
#[kani::stub(std::hash::RandomState::new, stub_random_state_new)]
#[kani::stub(std::fmt::format, stub_format)]
#[kani::unwind(2)]
pub fn c03_sole_voter_0peers() {
    let o = drive_broadcast(b"");
    sole_voter_oracle(&o);
    kani::cover!(o.ok && !o.asked, "sole voter wins immediately");
}
#[kani::proof]
#[kani::stub(std_catch_unwind, cu)]
#[kani::stub(tracing::level_filters::LevelFilter::current, stub_level_off)]
#[kani::stub(tracing::callsite::DefaultCallsite::register, stub_callsite_register)]
#[kani::stub(std::hash::RandomState::new, stub_random_state_new)]
#[kani::stub(std::fmt::format, stub_format)]
#[kani::unwind(2)]
pub fn c03_sole_voter_1peer() {
    let o = drive_broadcast(b"R");
    sole_voter_oracle(&o);
}
#[kani::proof]
#[kani::stub(std_catch_unwind, cu)]
#[kani::stub(tracing::level_filters::LevelFilter::current, stub_level_off)]
#[kani::stub(tracing::callsite::DefaultCallsite::register, stub_callsite_register)]
#[kani::stub(std::hash::RandomState::new, stub_random_state_new)]
#[kani::stub(std::fmt::format, stub_format)]
#[kani::unwind(2)]
pub fn c03_sole_voter_2peers() {
    let o = drive_broadcast(b"RR");
    sole_voter_oracle(&o);
}
