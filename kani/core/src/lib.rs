//! Engine K: Kani harnesses over the real d-engine-core crate (see /verif/DESIGN.md §3.1).
#![allow(unused_imports, dead_code, clippy::all)]
pub mod env;
pub mod stubs;

#[cfg(kani)]
mod probe;
