//! Engine K: Kani harnesses over the real d-engine-core crate (see /verif/DESIGN.md §3.1).
#![allow(unused_imports, dead_code, clippy::all, static_mut_refs)]
pub mod env;
pub mod stubs;
pub mod gen_slices;

#[cfg(kani)]
pub mod h_basic;
#[cfg(kani)]
pub mod h_election;
#[cfg(kani)]
pub mod h_repl;
#[cfg(kani)]
pub mod h_role;
#[cfg(kani)]
pub mod h_kernels;
#[cfg(kani)]
pub mod h_more;

#[cfg(kani)]
mod probe;

// native replay of solver counterexamples (filled in by /verif/check; see tools/vlib.py)
#[cfg(all(kani, test))]
mod playback_gen;
