//! Candidate harnesses for C13 (leader read-policy resolution), C29 (batch -> write metadata), C36 (AppendEntries
//! merge) and C37 (command round trip).  Each is promoted into a property only once it finishes under the cap.
use crate::env::*;
use crate::h_role::{is_eventual, policy_of};
use crate::stubs::*;
use bytes::Bytes;
use d_engine_core::candidate_state::CandidateState;
use d_engine_core::follower_state::FollowerState;
use d_engine_core::leader_state::verif_hooks_leader as lh;
use d_engine_core::leader_state::LeaderState;
use d_engine_core::verif_hooks as vh;
use d_engine_core::*;
use d_engine_proto::common::{Entry, EntryPayload};
use std::sync::Arc;

macro_rules! std_harness {
    ($name:ident, $body:expr) => {
        #[kani::proof]
        #[kani::stub(std_catch_unwind, cu)]
        #[kani::stub(tracing::level_filters::LevelFilter::current, stub_level_off)]
        #[kani::stub(tracing::callsite::DefaultCallsite::register, stub_callsite_register)]
        #[kani::stub(tokio::task::coop::poll_proceed, stub_poll_proceed)]
        #[kani::stub(std::time::Instant::now, fixed_std_now)]
        #[kani::stub(tokio::time::Instant::now, fixed_tokio_now)]
        #[kani::stub(vh::ElectionTimer::random_duration, fixed_random_duration)]
        #[kani::stub(std::hash::RandomState::new, stub_random_state_new)]
        #[kani::stub(std::fmt::format, stub_format)]
        #[kani::unwind(2)]
        pub fn $name() {
            $body
        }
    };
}

fn same_policy(a: &ReadConsistencyPolicy, b: &ReadConsistencyPolicy) -> bool {
    matches!(
        (a, b),
        (ReadConsistencyPolicy::LeaseRead, ReadConsistencyPolicy::LeaseRead)
            | (ReadConsistencyPolicy::LinearizableRead, ReadConsistencyPolicy::LinearizableRead)
            | (ReadConsistencyPolicy::EventualConsistency, ReadConsistencyPolicy::EventualConsistency)
    )
}

// C13 (leader side): the policy a leader serves a read under.  Override disabled => always the server default,
// whatever the client asked for; enabled => the client's choice, default when the client gave none.
std_harness!(c13_leader_read_policy, {
    let default_k: u8 = kani::any();
    kani::assume(default_k < 3);
    let allow: bool = kani::any();
    let cfg = crate::h_role::cfg_with_read_policy(default_k, allow);
    let f = FollowerState::<VT>::new(1, cfg.clone(), None, None);
    let c = CandidateState::<VT>::from(&f);
    let l = LeaderState::<VT>::from(&c);
    let has_client: bool = kani::any();
    let client_k: u8 = kani::any();
    kani::assume(client_k < 3);
    let req = ClientReadRequest { client_id: 3, keys: Vec::new(), consistency_policy: if has_client { Some(policy_of(client_k)) } else { None } };
    let eff = l.verif_determine_read_policy(&req);
    kani::cover!(has_client && !allow && client_k != default_k, "client asks for another policy, override disabled");
    kani::cover!(has_client && allow && client_k != default_k, "client override honoured");
    if !allow || !has_client {
        assert!(same_policy(&eff, &policy_of(default_k)), "C13:server_default_policy_not_enforced");
    } else {
        assert!(same_policy(&eff, &policy_of(client_k)), "C13:allowed_client_override_not_honoured");
    }
    std::mem::forget(req);
    std::mem::forget(l);
    std::mem::forget(c);
    std::mem::forget(f);
    std::mem::forget(cfg);
});

// C37: put / put-with-TTL / delete / CAS survive encode-into-the-log + decode-for-apply unchanged.
// Keys/values are 1 byte (symbolic), `expected` absent / present, TTL symbolic (None or Some(t)).
fn roundtrip(op: WriteOperation) -> Command {
    let wc = lh::write_op_to_proto(op);
    let payloads = client_command_to_entry_payloads(vec![wc]);
    let p = payloads.into_iter().next().unwrap();
    let e = Entry { index: 5, term: 2, payload: Some(p) };
    let d = decode_entries(vec![e]).unwrap();
    assert!(d.len() == 1 && d[0].index == 5 && d[0].term == 2, "C37:entry_position_changed_by_decode");
    let c = d[0].command.clone();
    std::mem::forget(d);
    c
}
#[kani::proof]
#[kani::stub(std_catch_unwind, cu)]
#[kani::stub(std::fmt::format, stub_format)]
#[kani::unwind(2)]
pub fn c37_roundtrip_delete() {
    let k: u8 = kani::any();
    let c = roundtrip(WriteOperation::Delete { key: Bytes::from(vec![k]) });
    kani::cover!(k == 0xFF, "key byte 0xFF");
    match &c {
        Command::Delete { key } => assert!(key.len() == 1 && key[0] == k, "C37:delete_key_changed"),
        _ => assert!(false, "C37:delete_decoded_as_other_command"),
    }
    std::mem::forget(c);
}
#[kani::proof]
#[kani::stub(std_catch_unwind, cu)]
#[kani::stub(std::fmt::format, stub_format)]
#[kani::unwind(2)]
pub fn c37_roundtrip_insert_ttl() {
    let k: u8 = kani::any();
    let v: u8 = kani::any();
    let has_ttl: bool = kani::any();
    let t: u64 = kani::any();
    kani::assume(t >= 1); // TTL 0 is the subject of c37_roundtrip_insert_ttl_zero
    let ttl = if has_ttl { Some(t) } else { None };
    let c = roundtrip(WriteOperation::Insert { key: Bytes::from(vec![k]), value: Bytes::from(vec![v]), ttl_secs: ttl });
    kani::cover!(has_ttl && t > (1u64 << 56), "TTL needing a 9-10 byte varint");
    kani::cover!(!has_ttl, "no TTL");
    match &c {
        Command::Insert { key, value, ttl_secs } => {
            assert!(key.len() == 1 && key[0] == k, "C37:insert_key_changed");
            assert!(value.len() == 1 && value[0] == v, "C37:insert_value_changed");
            assert!(*ttl_secs == ttl, "C37:insert_ttl_changed");
        }
        _ => assert!(false, "C37:insert_decoded_as_other_command"),
    }
    std::mem::forget(c);
}
#[kani::proof]
#[kani::stub(std_catch_unwind, cu)]
#[kani::stub(std::fmt::format, stub_format)]
#[kani::unwind(2)]
pub fn c37_roundtrip_insert_ttl_zero() {
    let k: u8 = kani::any();
    let c = roundtrip(WriteOperation::Insert { key: Bytes::from(vec![k]), value: Bytes::from(vec![k]), ttl_secs: Some(0) });
    kani::cover!(true, "put with TTL 0");
    match &c {
        Command::Insert { ttl_secs, .. } => assert!(*ttl_secs == Some(0), "C37:put_with_ttl_zero_applied_without_ttl"),
        _ => assert!(false, "C37:insert_decoded_as_other_command"),
    }
    std::mem::forget(c);
}
#[kani::proof]
#[kani::stub(std_catch_unwind, cu)]
#[kani::stub(std::fmt::format, stub_format)]
#[kani::unwind(2)]
pub fn c37_roundtrip_cas() {
    let k: u8 = kani::any();
    let v: u8 = kani::any();
    let e: u8 = kani::any();
    let mode: u8 = kani::any();
    kani::assume(mode < 3);
    let expected = match mode {
        0 => None,
        1 => Some(Bytes::new()),
        _ => Some(Bytes::from(vec![e])),
    };
    let c = roundtrip(WriteOperation::CompareAndSwap { key: Bytes::from(vec![k]), expected: expected.clone(), new_value: Bytes::from(vec![v]) });
    kani::cover!(mode == 0, "expected absent");
    kani::cover!(mode == 1, "expected present but empty");
    kani::cover!(mode == 2, "expected one byte");
    match &c {
        Command::CompareAndSwap { key, expected: ex, value } => {
            assert!(key.len() == 1 && key[0] == k, "C37:cas_key_changed");
            assert!(value.len() == 1 && value[0] == v, "C37:cas_new_value_changed");
            match (mode, ex) {
                (0, None) => {}
                (1, Some(b)) => assert!(b.is_empty(), "C37:cas_empty_expected_changed"),
                (2, Some(b)) => assert!(b.len() == 1 && b[0] == e, "C37:cas_expected_changed"),
                _ => assert!(false, "C37:cas_expected_presence_changed"),
            }
        }
        _ => assert!(false, "C37:cas_decoded_as_other_command"),
    }
    std::mem::forget(c);
    std::mem::forget(expected);
}

// ------------------------------------------------------------------------------------------
// C37 (scoped to the two conversions around the wire format; the prost varint/bytes codec itself is trusted
// library code -- the full encode/decode round trip did not finish under the cap)
// ------------------------------------------------------------------------------------------
fn convert(op: WriteOperation) -> Command {
    let wc = lh::write_op_to_proto(op);
    match Command::try_from(wc) {
        Ok(c) => c,
        Err(e) => {
            std::mem::forget(e);
            panic!("C37:submitted_operation_rejected_by_decode")
        }
    }
}
#[kani::proof]
#[kani::stub(std_catch_unwind, cu)]
#[kani::stub(std::fmt::format, stub_format)]
#[kani::unwind(2)]
pub fn c37_convert_insert_delete() {
    let k: [u8; 2] = kani::any();
    let v: [u8; 2] = kani::any();
    let kl: usize = kani::any();
    let vl: usize = kani::any();
    kani::assume(kl <= 2 && vl <= 2);
    let which: bool = kani::any();
    if which {
        let has_ttl: bool = kani::any();
        let t: u64 = kani::any();
        kani::assume(t >= 1); // TTL 0: c37_convert_ttl_zero
        let ttl = if has_ttl { Some(t) } else { None };
        let c = convert(WriteOperation::Insert { key: Bytes::copy_from_slice(&k[..kl]), value: Bytes::copy_from_slice(&v[..vl]), ttl_secs: ttl });
        kani::cover!(has_ttl && kl == 0, "put with TTL and empty key");
        kani::cover!(!has_ttl && vl == 2, "plain put");
        match &c {
            Command::Insert { key, value, ttl_secs } => {
                assert!(key.len() == kl && (kl < 1 || key[0] == k[0]) && (kl < 2 || key[1] == k[1]), "C37:insert_key_changed");
                assert!(value.len() == vl && (vl < 1 || value[0] == v[0]) && (vl < 2 || value[1] == v[1]), "C37:insert_value_changed");
                assert!(*ttl_secs == ttl, "C37:insert_ttl_changed");
            }
            _ => assert!(false, "C37:insert_decoded_as_other_command"),
        }
        std::mem::forget(c);
    } else {
        let c = convert(WriteOperation::Delete { key: Bytes::copy_from_slice(&k[..kl]) });
        kani::cover!(kl == 2, "delete of a two-byte key");
        match &c {
            Command::Delete { key } => assert!(key.len() == kl && (kl < 1 || key[0] == k[0]) && (kl < 2 || key[1] == k[1]), "C37:delete_key_changed"),
            _ => assert!(false, "C37:delete_decoded_as_other_command"),
        }
        std::mem::forget(c);
    }
}
#[kani::proof]
#[kani::stub(std_catch_unwind, cu)]
#[kani::stub(std::fmt::format, stub_format)]
#[kani::unwind(2)]
pub fn c37_convert_cas() {
    let k: u8 = kani::any();
    let v: u8 = kani::any();
    let e: u8 = kani::any();
    let mode: u8 = kani::any();
    kani::assume(mode < 3);
    let expected = match mode {
        0 => None,
        1 => Some(Bytes::new()),
        _ => Some(Bytes::copy_from_slice(&[e])),
    };
    let c = convert(WriteOperation::CompareAndSwap { key: Bytes::copy_from_slice(&[k]), expected, new_value: Bytes::copy_from_slice(&[v]) });
    kani::cover!(mode == 0, "expected absent");
    kani::cover!(mode == 1, "expected present but empty");
    kani::cover!(mode == 2, "expected one byte");
    match &c {
        Command::CompareAndSwap { key, expected: ex, value } => {
            assert!(key.len() == 1 && key[0] == k, "C37:cas_key_changed");
            assert!(value.len() == 1 && value[0] == v, "C37:cas_new_value_changed");
            match (mode, ex) {
                (0, None) => {}
                (1, Some(b)) => assert!(b.is_empty(), "C37:cas_empty_expected_changed"),
                (2, Some(b)) => assert!(b.len() == 1 && b[0] == e, "C37:cas_expected_changed"),
                _ => assert!(false, "C37:cas_expected_presence_changed"),
            }
        }
        _ => assert!(false, "C37:cas_decoded_as_other_command"),
    }
    std::mem::forget(c);
}
#[kani::proof]
#[kani::stub(std_catch_unwind, cu)]
#[kani::stub(std::fmt::format, stub_format)]
#[kani::unwind(2)]
pub fn c37_convert_ttl_zero() {
    let k: u8 = kani::any();
    let c = convert(WriteOperation::Insert { key: Bytes::copy_from_slice(&[k]), value: Bytes::copy_from_slice(&[k]), ttl_secs: Some(0) });
    kani::cover!(true, "put with TTL 0");
    match &c {
        Command::Insert { ttl_secs, .. } => assert!(*ttl_secs == Some(0), "C37:put_with_ttl_zero_applied_without_ttl"),
        _ => assert!(false, "C37:insert_decoded_as_other_command"),
    }
    std::mem::forget(c);
}
