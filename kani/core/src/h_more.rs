//! Candidate harnesses for C13 (leader read-policy resolution), C29 (batch -> write metadata), C36 (AppendEntries
//! merge) and C37 (command round trip).  Each is promoted into a property only once it finishes under the cap.
use crate::env::*;
use crate::h_role::{is_eventual, policy_of};
use crate::stubs::*;
use bytes::Bytes;
use d_engine_core::candidate_state::CandidateState;
use d_engine_core::follower_state::FollowerState;
use d_engine_core::leader_state::verif_hooks_leader as lh;
use d_engine_core::leader_state::LeaderState;
use d_engine_core::verif_hooks as vh;
use d_engine_core::*;
use d_engine_proto::common::{Entry, EntryPayload};
use std::sync::Arc;

macro_rules! std_harness {
    ($name:ident, $body:expr) => {
        #[kani::proof]
        #[kani::stub(std_catch_unwind, cu)]
        #[kani::stub(tracing::level_filters::LevelFilter::current, stub_level_off)]
        #[kani::stub(tracing::callsite::DefaultCallsite::register, stub_callsite_register)]
        #[kani::stub(tokio::task::coop::poll_proceed, stub_poll_proceed)]
        #[kani::stub(std::time::Instant::now, fixed_std_now)]
        #[kani::stub(tokio::time::Instant::now, fixed_tokio_now)]
        #[kani::stub(vh::ElectionTimer::random_duration, fixed_random_duration)]
        #[kani::stub(std::hash::RandomState::new, stub_random_state_new)]
        #[kani::stub(std::fmt::format, stub_format)]
        #[kani::unwind(2)]
        pub fn $name() {
            $body
        }
    };
}

fn same_policy(a: &ReadConsistencyPolicy, b: &ReadConsistencyPolicy) -> bool {
    matches!(
        (a, b),
        (ReadConsistencyPolicy::LeaseRead, ReadConsistencyPolicy::LeaseRead)
            | (ReadConsistencyPolicy::LinearizableRead, ReadConsistencyPolicy::LinearizableRead)
            | (ReadConsistencyPolicy::EventualConsistency, ReadConsistencyPolicy::EventualConsistency)
    )
}

// C13 (leader side): the policy a leader serves a read under.  Override disabled => always the server default,
// whatever the client asked for; enabled => the client's choice, default when the client gave none.
std_harness!(c13_leader_read_policy, {
    let default_k: u8 = kani::any();
    kani::assume(default_k < 3);
    let allow: bool = kani::any();
    let cfg = crate::h_role::cfg_with_read_policy(default_k, allow);
    let f = FollowerState::<VT>::new(1, cfg.clone(), None, None);
    let c = CandidateState::<VT>::from(&f);
    let l = LeaderState::<VT>::from(&c);
    let has_client: bool = kani::any();
    let client_k: u8 = kani::any();
    kani::assume(client_k < 3);
    let req = ClientReadRequest { client_id: 3, keys: Vec::new(), consistency_policy: if has_client { Some(policy_of(client_k)) } else { None } };
    let eff = l.verif_determine_read_policy(&req);
    kani::cover!(has_client && !allow && client_k != default_k, "client asks for another policy, override disabled");
    kani::cover!(has_client && allow && client_k != default_k, "client override honoured");
    if !allow || !has_client {
        assert!(same_policy(&eff, &policy_of(default_k)), "C13:server_default_policy_not_enforced");
    } else {
        assert!(same_policy(&eff, &policy_of(client_k)), "C13:allowed_client_override_not_honoured");
    }
    std::mem::forget(req);
    std::mem::forget(l);
    std::mem::forget(c);
    std::mem::forget(f);
    std::mem::forget(cfg);
});

// C37: put / put-with-TTL / delete / CAS survive encode-into-the-log + decode-for-apply unchanged.
// Keys/values are 1 byte (symbolic), `expected` absent / present, TTL symbolic (None or Some(t)).
fn roundtrip(op: WriteOperation) -> Command {
    let wc = lh::write_op_to_proto(op);
    let payloads = client_command_to_entry_payloads(vec![wc]);
    let p = payloads.into_iter().next().unwrap();
    let e = Entry { index: 5, term: 2, payload: Some(p) };
    let d = decode_entries(vec![e]).unwrap();
    assert!(d.len() == 1 && d[0].index == 5 && d[0].term == 2, "C37:entry_position_changed_by_decode");
    let c = d[0].command.clone();
    std::mem::forget(d);
    c
}
#[kani::proof]
#[kani::stub(std_catch_unwind, cu)]
#[kani::stub(std::fmt::format, stub_format)]
#[kani::unwind(2)]
pub fn c37_roundtrip_delete() {
    let k: u8 = kani::any();
    let c = roundtrip(WriteOperation::Delete { key: Bytes::from(vec![k]) });
    kani::cover!(k == 0xFF, "key byte 0xFF");
    match &c {
        Command::Delete { key } => assert!(key.len() == 1 && key[0] == k, "C37:delete_key_changed"),
        _ => assert!(false, "C37:delete_decoded_as_other_command"),
    }
    std::mem::forget(c);
}
#[kani::proof]
#[kani::stub(std_catch_unwind, cu)]
#[kani::stub(std::fmt::format, stub_format)]
#[kani::unwind(2)]
pub fn c37_roundtrip_insert_ttl() {
    let k: u8 = kani::any();
    let v: u8 = kani::any();
    let has_ttl: bool = kani::any();
    let t: u64 = kani::any();
    kani::assume(t >= 1); // TTL 0 is the subject of c37_roundtrip_insert_ttl_zero
    let ttl = if has_ttl { Some(t) } else { None };
    let c = roundtrip(WriteOperation::Insert { key: Bytes::from(vec![k]), value: Bytes::from(vec![v]), ttl_secs: ttl });
    kani::cover!(has_ttl && t > (1u64 << 56), "TTL needing a 9-10 byte varint");
    kani::cover!(!has_ttl, "no TTL");
    match &c {
        Command::Insert { key, value, ttl_secs } => {
            assert!(key.len() == 1 && key[0] == k, "C37:insert_key_changed");
            assert!(value.len() == 1 && value[0] == v, "C37:insert_value_changed");
            assert!(*ttl_secs == ttl, "C37:insert_ttl_changed");
        }
        _ => assert!(false, "C37:insert_decoded_as_other_command"),
    }
    std::mem::forget(c);
}
#[kani::proof]
#[kani::stub(std_catch_unwind, cu)]
#[kani::stub(std::fmt::format, stub_format)]
#[kani::unwind(2)]
pub fn c37_roundtrip_insert_ttl_zero() {
    let k: u8 = kani::any();
    let c = roundtrip(WriteOperation::Insert { key: Bytes::from(vec![k]), value: Bytes::from(vec![k]), ttl_secs: Some(0) });
    kani::cover!(true, "put with TTL 0");
    match &c {
        Command::Insert { ttl_secs, .. } => assert!(*ttl_secs == Some(0), "C37:put_with_ttl_zero_applied_without_ttl"),
        _ => assert!(false, "C37:insert_decoded_as_other_command"),
    }
    std::mem::forget(c);
}
#[kani::proof]
#[kani::stub(std_catch_unwind, cu)]
#[kani::stub(std::fmt::format, stub_format)]
#[kani::unwind(2)]
pub fn c37_roundtrip_cas() {
    let k: u8 = kani::any();
    let v: u8 = kani::any();
    let e: u8 = kani::any();
    let mode: u8 = kani::any();
    kani::assume(mode < 3);
    let expected = match mode {
        0 => None,
        1 => Some(Bytes::new()),
        _ => Some(Bytes::from(vec![e])),
    };
    let c = roundtrip(WriteOperation::CompareAndSwap { key: Bytes::from(vec![k]), expected: expected.clone(), new_value: Bytes::from(vec![v]) });
    kani::cover!(mode == 0, "expected absent");
    kani::cover!(mode == 1, "expected present but empty");
    kani::cover!(mode == 2, "expected one byte");
    match &c {
        Command::CompareAndSwap { key, expected: ex, value } => {
            assert!(key.len() == 1 && key[0] == k, "C37:cas_key_changed");
            assert!(value.len() == 1 && value[0] == v, "C37:cas_new_value_changed");
            match (mode, ex) {
                (0, None) => {}
                (1, Some(b)) => assert!(b.is_empty(), "C37:cas_empty_expected_changed"),
                (2, Some(b)) => assert!(b.len() == 1 && b[0] == e, "C37:cas_expected_changed"),
                _ => assert!(false, "C37:cas_expected_presence_changed"),
            }
        }
        _ => assert!(false, "C37:cas_decoded_as_other_command"),
    }
    std::mem::forget(c);
    std::mem::forget(expected);
}

// ------------------------------------------------------------------------------------------
// C37 (scoped to the two conversions around the wire format; the prost varint/bytes codec itself is trusted
// library code -- the full encode/decode round trip did not finish under the cap)
// ------------------------------------------------------------------------------------------
fn convert(op: WriteOperation) -> Command {
    let wc = lh::write_op_to_proto(op);
    match Command::try_from(wc) {
        Ok(c) => c,
        Err(e) => {
            std::mem::forget(e);
            panic!("C37:submitted_operation_rejected_by_decode")
        }
    }
}
#[kani::proof]
#[kani::stub(std_catch_unwind, cu)]
#[kani::stub(std::fmt::format, stub_format)]
#[kani::unwind(2)]
pub fn c37_convert_insert_delete() {
    let k: [u8; 2] = kani::any();
    let v: [u8; 2] = kani::any();
    let kl: usize = kani::any();
    let vl: usize = kani::any();
    kani::assume(kl <= 2 && vl <= 2);
    let which: bool = kani::any();
    if which {
        let has_ttl: bool = kani::any();
        let t: u64 = kani::any();
        kani::assume(t >= 1); // TTL 0: c37_convert_ttl_zero
        let ttl = if has_ttl { Some(t) } else { None };
        let c = convert(WriteOperation::Insert { key: Bytes::copy_from_slice(&k[..kl]), value: Bytes::copy_from_slice(&v[..vl]), ttl_secs: ttl });
        kani::cover!(has_ttl && kl == 0, "put with TTL and empty key");
        kani::cover!(!has_ttl && vl == 2, "plain put");
        match &c {
            Command::Insert { key, value, ttl_secs } => {
                assert!(key.len() == kl && (kl < 1 || key[0] == k[0]) && (kl < 2 || key[1] == k[1]), "C37:insert_key_changed");
                assert!(value.len() == vl && (vl < 1 || value[0] == v[0]) && (vl < 2 || value[1] == v[1]), "C37:insert_value_changed");
                assert!(*ttl_secs == ttl, "C37:insert_ttl_changed");
            }
            _ => assert!(false, "C37:insert_decoded_as_other_command"),
        }
        std::mem::forget(c);
    } else {
        let c = convert(WriteOperation::Delete { key: Bytes::copy_from_slice(&k[..kl]) });
        kani::cover!(kl == 2, "delete of a two-byte key");
        match &c {
            Command::Delete { key } => assert!(key.len() == kl && (kl < 1 || key[0] == k[0]) && (kl < 2 || key[1] == k[1]), "C37:delete_key_changed"),
            _ => assert!(false, "C37:delete_decoded_as_other_command"),
        }
        std::mem::forget(c);
    }
}
#[kani::proof]
#[kani::stub(std_catch_unwind, cu)]
#[kani::stub(std::fmt::format, stub_format)]
#[kani::unwind(2)]
pub fn c37_convert_cas() {
    let k: u8 = kani::any();
    let v: u8 = kani::any();
    let e: u8 = kani::any();
    let mode: u8 = kani::any();
    kani::assume(mode < 3);
    let expected = match mode {
        0 => None,
        1 => Some(Bytes::new()),
        _ => Some(Bytes::copy_from_slice(&[e])),
    };
    let c = convert(WriteOperation::CompareAndSwap { key: Bytes::copy_from_slice(&[k]), expected, new_value: Bytes::copy_from_slice(&[v]) });
    kani::cover!(mode == 0, "expected absent");
    kani::cover!(mode == 1, "expected present but empty");
    kani::cover!(mode == 2, "expected one byte");
    match &c {
        Command::CompareAndSwap { key, expected: ex, value } => {
            assert!(key.len() == 1 && key[0] == k, "C37:cas_key_changed");
            assert!(value.len() == 1 && value[0] == v, "C37:cas_new_value_changed");
            match (mode, ex) {
                (0, None) => {}
                (1, Some(b)) => assert!(b.is_empty(), "C37:cas_empty_expected_changed"),
                (2, Some(b)) => assert!(b.len() == 1 && b[0] == e, "C37:cas_expected_changed"),
                _ => assert!(false, "C37:cas_expected_presence_changed"),
            }
        }
        _ => assert!(false, "C37:cas_decoded_as_other_command"),
    }
    std::mem::forget(c);
}
#[kani::proof]
#[kani::stub(std_catch_unwind, cu)]
#[kani::stub(std::fmt::format, stub_format)]
#[kani::unwind(2)]
pub fn c37_convert_ttl_zero() {
    let k: u8 = kani::any();
    let c = convert(WriteOperation::Insert { key: Bytes::copy_from_slice(&[k]), value: Bytes::copy_from_slice(&[k]), ttl_secs: Some(0) });
    kani::cover!(true, "put with TTL 0");
    match &c {
        Command::Insert { ttl_secs, .. } => assert!(*ttl_secs == Some(0), "C37:put_with_ttl_zero_applied_without_ttl"),
        _ => assert!(false, "C37:insert_decoded_as_other_command"),
    }
    std::mem::forget(c);
}

// ------------------------------------------------------------------------------------------
// C36: the real `Raft::merge_append_entries` on a queue of two AppendEntries (one entry each, all numeric fields
// symbolic).  Structural oracle: the second request is merged iff it has the same term and continues exactly where
// the first one ends; the merged request keeps the first request's term/prev, concatenates the entries in order,
// takes the larger leader_commit and keeps every sender; an unmerged queue is left untouched.
// ------------------------------------------------------------------------------------------
use d_engine_proto::server::replication::*;
use tokio::sync::mpsc;
fn mk_raft(cfg: Arc<RaftNodeConfig>) -> Raft<VT> {
    let role = RaftRole::Follower(Box::new(FollowerState::<VT>::new(1, cfg.clone(), None, None)));
    let (itx, irx) = mpsc::unbounded_channel();
    let (etx, erx) = mpsc::channel(8);
    let (ctx_, crx) = mpsc::channel(8);
    let (stx, srx) = tokio::sync::watch::channel(());
    std::mem::forget(stx);
    let sp = SignalParams::new(itx, irx, etx, erx, ctx_, crx, srx);
    let storage = RaftStorageHandles::<VT> { raft_log: Arc::new(VLog::empty()), state_machine: Arc::new(VSm::new(0)) };
    let handlers = RaftCoreHandlers::<VT> { election_handler: ElectionHandler::new(1), replication_handler: ReplicationHandler::new(1), state_machine_handler: Arc::new(VSmh::new()), purge_executor: Arc::new(VPurge) };
    Raft::new(1, role, storage, VTr::new(), handlers, Arc::new(VMem::new(3, 2, 0)), sp, cfg)
}
fn any_ae(nent: usize) -> (AppendEntriesRequest, u64, u64) {
    let prev: u64 = kani::any();
    kani::assume(prev < u64::MAX - 8);
    let i0: u64 = kani::any();
    let t0: u64 = kani::any();
    let req = AppendEntriesRequest {
        term: kani::any(),
        leader_id: 9,
        prev_log_index: prev,
        prev_log_term: kani::any(),
        entries: vec_exact(nent, |_| Entry { index: i0, term: t0, payload: None }),
        leader_commit_index: kani::any(),
    };
    (req, i0, t0)
}
std_harness!(c36_merge_two_requests, {
    let cfg = shared_default_config();
    let mut raft = mk_raft(cfg.clone());
    let (r1, i1, t1) = any_ae(1);
    let (r2, i2, t2) = any_ae(1);
    let (term1, prev1, c1) = (r1.term, r1.prev_log_index, r1.leader_commit_index);
    let (term2, prev2, c2) = (r2.term, r2.prev_log_index, r2.leader_commit_index);
    let (tx1, rx1) = MaybeCloneOneshot::new();
    let (tx2, rx2) = MaybeCloneOneshot::new();
    raft.verif_push_inbound(InboundEvent::AppendEntries(r1, vec![tx1]));
    raft.verif_push_inbound(InboundEvent::AppendEntries(r2, vec![tx2]));
    raft.verif_merge_append_entries();
    let should_merge = term1 == term2 && prev2 == prev1 + 1;
    kani::cover!(should_merge, "second request continues the first: merged");
    kani::cover!(!should_merge && term1 == term2, "gap or overlap: not merged");
    kani::cover!(term1 != term2, "different terms: not merged");
    let n = raft.verif_inbound_len();
    assert!(n == if should_merge { 1 } else { 2 }, "C36:merge_decision_differs_from_same_term_and_contiguous_prev");
    match raft.verif_pop_inbound() {
        Some(InboundEvent::AppendEntries(m, senders)) => {
            assert!(m.term == term1 && m.prev_log_index == prev1, "C36:merged_request_lost_first_term_or_prev");
            if should_merge {
                assert!(m.entries.len() == 2, "C36:merged_entries_not_concatenated");
                assert!(m.entries[0].index == i1 && m.entries[0].term == t1 && m.entries[1].index == i2 && m.entries[1].term == t2, "C36:merged_entries_reordered_or_changed");
                assert!(m.leader_commit_index == if c1 > c2 { c1 } else { c2 }, "C36:merged_commit_is_not_the_maximum");
                assert!(senders.len() == 2, "C36:merged_request_lost_a_sender");
            } else {
                assert!(m.entries.len() == 1 && m.entries[0].index == i1 && m.leader_commit_index == c1 && senders.len() == 1, "C36:unmerged_first_request_modified");
            }
            std::mem::forget(m);
            std::mem::forget(senders);
        }
        _ => assert!(false, "C36:queue_head_is_not_an_append_entries_event"),
    }
    if !should_merge {
        match raft.verif_pop_inbound() {
            Some(InboundEvent::AppendEntries(m, senders)) => {
                assert!(m.term == term2 && m.prev_log_index == prev2 && m.entries.len() == 1 && m.entries[0].index == i2 && m.leader_commit_index == c2 && senders.len() == 1, "C36:unmerged_second_request_modified");
                std::mem::forget(m);
                std::mem::forget(senders);
            }
            _ => assert!(false, "C36:second_event_lost"),
        }
    }
    std::mem::forget(rx1);
    std::mem::forget(rx2);
    std::mem::forget(raft);
    std::mem::forget(cfg);
});

// ------------------------------------------------------------------------------------------
// C09: WHO is counted.  The real `LeaderState::calculate_new_commit_index` with a leader that tracks four peers:
// ids 2 and 3 are voters, id 4 is a learner, id 5 is NOT a replication target any more (removed from the
// membership, its match_index entry is still there -- match_index is never cleaned up).  All four match indexes
// are symbolic.  The vector handed to the log's majority calculation must hold exactly the two voters' values.
// ------------------------------------------------------------------------------------------
use d_engine_proto::common::NodeRole;
use d_engine_proto::server::cluster::NodeMeta;
fn nm(id: u32, learner: bool) -> NodeMeta {
    NodeMeta { id, address: String::new(), role: if learner { NodeRole::Learner as i32 } else { NodeRole::Follower as i32 }, status: 2 }
}
std_harness!(c09_commit_counts_only_current_voters, {
    let cfg = shared_default_config();
    let f = FollowerState::<VT>::new(1, cfg.clone(), None, None);
    let c = CandidateState::<VT>::from(&f);
    let mut l = LeaderState::<VT>::from(&c);
    // three tracked peers (a 4-bucket hash table, no resize): id 2 voter, id 4 learner, id 5 removed from the membership
    let (m2, m4, m5): (u64, u64, u64) = (kani::any(), kani::any(), kani::any());
    let m3 = m2; // kept for the oracle below: the only voter besides the leader is peer 2
    {
        let mi = l.verif_match_index_mut();
        mi.insert(2, m2);
        mi.insert(4, m4);
        mi.insert(5, m5);
    }
    {
        let cm = l.verif_cluster_metadata_mut();
        cm.single_voter = false;
        cm.total_voters = 2;
        cm.replication_targets = vec![nm(2, false), nm(4, true)];
    }
    let log = Arc::new(crate::h_repl::any_log(4));
    let cur: u64 = kani::any();
    l.shared_state.hard_state.current_term = cur;
    let old_commit: u64 = kani::any();
    l.shared_state.commit_index = old_commit;
    let r = l.verif_calculate_new_commit_index(&log);
    let g = log.i.r();
    kani::cover!(r.is_some(), "commit index advances");
    kani::cover!(r.is_none() && m4 > m2, "learner ahead of the voter, no commit");
    kani::cover!(r.is_none() && m5 > m2, "removed peer ahead of the voter, no commit");
    assert!(g.maj_calls == 1, "C09:majority_calculation_not_called_exactly_once");
    assert!(g.maj_n == 1, "C09:quorum_vector_does_not_hold_exactly_the_voters");
    assert!(g.maj_arg[0] == m2, "C09:learner_or_removed_peer_counted_toward_commit_quorum");
    if let Some(n) = r {
        assert!(n > old_commit, "C09:commit_index_not_advancing");
        // with the reference log: a strict majority of {leader, voter 2, voter 3} holds n, and n is of the current term
        // voters = {leader, peer 2}: a strict majority of two is both of them
        assert!(log.len() >= n && m2 >= n && m3 >= n, "C09:commit_without_voter_majority");
        assert!(n >= 1 && n <= log.len() && log.term_at(n) == cur, "C09:commit_of_entry_from_older_term");
    }
    std::mem::forget(log);
    std::mem::forget(l);
    std::mem::forget(c);
    std::mem::forget(f);
    std::mem::forget(cfg);
});

// ------------------------------------------------------------------------------------------
// Leader-state kernels on a REAL LeaderState (FollowerState::new -> CandidateState::from -> LeaderState::from)
// ------------------------------------------------------------------------------------------
use d_engine_core::role_state::RaftRoleState;
use d_engine_proto::common::LogId;
fn mk_leader(cfg: &Arc<RaftNodeConfig>) -> LeaderState<VT> {
    let f = FollowerState::<VT>::new(1, cfg.clone(), None, None);
    let c = CandidateState::<VT>::from(&f);
    let l = LeaderState::<VT>::from(&c);
    std::mem::forget(c);
    std::mem::forget(f);
    l
}
pub static mut NOW_MS: u64 = 0;
pub fn stub_now_ms_static() -> u64 {
    unsafe { NOW_MS }
}

// C12: the lease a leader holds after a renewal anchored at `send_ts` is valid exactly for clock values before
// send_ts + lease_duration, only for the leader's own term; and stepping down (become_follower) revokes it for
// every clock value -- before any internal event is processed.
#[kani::proof]
#[kani::stub(std_catch_unwind, cu)]
#[kani::stub(tracing::level_filters::LevelFilter::current, stub_level_off)]
#[kani::stub(tracing::callsite::DefaultCallsite::register, stub_callsite_register)]
#[kani::stub(std::time::Instant::now, fixed_std_now)]
#[kani::stub(tokio::time::Instant::now, fixed_tokio_now)]
#[kani::stub(vh::ElectionTimer::random_duration, fixed_random_duration)]
#[kani::stub(std::hash::RandomState::new, stub_random_state_new)]
#[kani::stub(std::fmt::format, stub_format)]
#[kani::stub(d_engine_core::now_ms, stub_now_ms_static)]
#[kani::stub(std::io::_print, stub_print)]
#[kani::unwind(2)]
pub fn c12_leader_lease_window_and_stepdown() {
    let cfg = shared_default_config();
    let mut l = mk_leader(&cfg);
    let term: u64 = kani::any();
    kani::assume(term < 65536); // terms below the documented 16-bit wrap of the lease word
    l.shared_state.hard_state.current_term = term;
    let send_ts: u64 = kani::any();
    let lease: u64 = kani::any();
    kani::assume(send_ts < (1u64 << 47) && lease < (1u64 << 47)); // deadline fits the 48-bit field (renew panics above)
    l.verif_update_lease_timestamp(send_ts, lease);
    let now: u64 = kani::any();
    unsafe {
        NOW_MS = now;
    }
    let valid = l.is_lease_valid();
    kani::cover!(valid, "lease valid");
    kani::cover!(!valid && lease > 0, "lease expired");
    assert!(valid == (now < send_ts + lease), "C12:leader_lease_valid_outside_send_time_plus_lease_window");
    // a different term never sees it
    let other: u64 = kani::any();
    kani::assume(other < 65536 && other != term);
    assert!(!l.shared_state.lease.is_valid_for_leader(other, now), "C12:lease_valid_for_another_term");
    // step-down
    let lease_cell = l.shared_state.lease.clone();
    let r = l.become_follower();
    assert!(r.is_ok(), "C12:leader_cannot_step_down");
    let any_now: u64 = kani::any();
    assert!(!lease_cell.is_valid(any_now), "C12:lease_still_valid_after_step_down");
    assert!(!lease_cell.is_valid_for_leader(term, any_now), "C12:lease_still_valid_for_leader_after_step_down");
    std::mem::forget(r);
    std::mem::forget(l);
    std::mem::forget(cfg);
}

// C05: the leader's and the learner's purge guards (the follower's is in h_basic).
std_harness!(c05_leader_purge_guard, {
    let cfg = shared_default_config();
    let mut l = mk_leader(&cfg);
    let commit: u64 = kani::any();
    l.shared_state.commit_index = commit;
    let li = LogId { index: kani::any(), term: kani::any() };
    let has_last: bool = kani::any();
    let last = LogId { index: kani::any(), term: kani::any() };
    let ok = l.can_purge_logs(if has_last { Some(last) } else { None }, li);
    kani::cover!(ok && has_last, "purge allowed after an earlier purge");
    kani::cover!(!ok && li.index < commit, "purge refused by monotonicity");
    if ok {
        assert!(li.index < commit, "C05:purge_only_strictly_below_commit_index");
        if has_last {
            assert!(last.index < li.index, "C05:purge_boundary_strictly_increases");
        }
    }
    std::mem::forget(l);
    std::mem::forget(cfg);
});
std_harness!(c05_learner_purge_guard, {
    let cfg = shared_default_config();
    let mut l = d_engine_core::learner_state::LearnerState::<VT>::new(1, cfg.clone());
    let commit: u64 = kani::any();
    l.shared_state.commit_index = commit;
    let li = LogId { index: kani::any(), term: kani::any() };
    let has_last: bool = kani::any();
    let last = LogId { index: kani::any(), term: kani::any() };
    let ok = l.can_purge_logs(if has_last { Some(last) } else { None }, li);
    kani::cover!(ok && has_last, "purge allowed after an earlier purge");
    kani::cover!(!ok && li.index < commit, "purge refused by monotonicity");
    if ok {
        assert!(li.index < commit, "C05:purge_only_strictly_below_commit_index");
        if has_last {
            assert!(last.index < li.index, "C05:purge_boundary_strictly_increases");
        }
    }
    std::mem::forget(l);
    std::mem::forget(cfg);
});

// C09: per-peer index bookkeeping on a real LeaderState (one tracked peer, id 2): match_index never decreases,
// next_index never falls to or below what is already matched, a success never lowers next_index, a conflict may
// lower it but not below match+1.
std_harness!(c09_leader_index_updates, {
    let cfg = shared_default_config();
    let mut l = mk_leader(&cfg);
    let a: u64 = kani::any();
    let b: u64 = kani::any();
    kani::assume(a < u64::MAX - 1 && b < u64::MAX - 1);
    l.update_match_index(2, a).unwrap();
    l.update_match_index(2, b).unwrap();
    let m = l.match_index(2).unwrap_or(0);
    kani::cover!(b < a, "late acknowledgement with a lower index");
    assert!(m == if a > b { a } else { b }, "C09:match_index_decreased_or_not_recorded");
    let x: u64 = kani::any();
    l.update_next_index(2, x).unwrap();
    let n = l.next_index(2).unwrap();
    assert!(n >= m + 1, "C09:next_index_at_or_below_matched_index");
    assert!(n == if x > m + 1 { x } else { m + 1 }, "C09:next_index_not_max_of_request_and_floor");
    // a peer update coming from a response
    let success: bool = kani::any();
    let hint: u64 = kani::any();
    kani::assume(hint >= 1 && hint < u64::MAX - 1);
    let upd = PeerUpdate { match_index: if success { Some(hint - 1) } else { None }, next_index: hint, success };
    l.verif_update_peer_index(2, &upd);
    let m2 = l.match_index(2).unwrap_or(0);
    let n2 = l.next_index(2).unwrap();
    kani::cover!(success && hint < n, "stale success below the speculative next_index");
    kani::cover!(!success && hint < n, "conflict moves next_index back");
    assert!(m2 >= m, "C09:match_index_decreased_by_a_response");
    assert!(n2 >= m2 + 1, "C09:next_index_at_or_below_matched_index");
    if success {
        assert!(n2 >= n, "C09:success_response_lowered_next_index");
    } else {
        assert!(m2 == m, "C09:conflict_response_changed_match_index");
        assert!(n2 == if hint > m + 1 { hint } else { m + 1 }, "C09:conflict_hint_not_applied_with_floor");
    }
    std::mem::forget(l);
    std::mem::forget(cfg);
});

// C29: a pending write batch (two requests, indexes s and s+1, no apply wait) is answered exactly when the commit
// index reaches its LAST entry: not before, each sender once, with success.
std_harness!(c29_drain_on_commit, {
    let cfg = shared_default_config();
    let mut l = mk_leader(&cfg);
    let s: u64 = kani::any();
    kani::assume(s >= 1 && s < u64::MAX - 4);
    let (tx1, rx1) = MaybeCloneOneshot::new();
    let (tx2, rx2) = MaybeCloneOneshot::new();
    l.verif_insert_pending_client_writes(s, vec![tx1, tx2], false);
    let c: u64 = kani::any();
    l.verif_drain_pending_client_writes(c);
    let r1 = poll_once(std::pin::pin!(rx1));
    let r2 = poll_once(std::pin::pin!(rx2));
    let answered1 = matches!(r1, Some(Ok(Ok(_))));
    let answered2 = matches!(r2, Some(Ok(Ok(_))));
    kani::cover!(c == s, "commit reached only the first entry of the batch");
    kani::cover!(c >= s + 1, "commit reached the whole batch");
    if c >= s + 1 {
        assert!(answered1 && answered2, "C29:committed_batch_not_answered");
        assert!(l.verif_pending_client_writes_len() == 0, "C29:answered_batch_still_pending");
        if let Some(Ok(Ok(resp))) = &r1 {
            assert!(resp.error == ErrorCode::Success, "C29:committed_write_answered_with_error");
        }
    } else {
        assert!(!answered1 && !answered2, "C29:write_answered_before_its_batch_committed");
        assert!(l.verif_pending_client_writes_len() == 1, "C29:uncommitted_batch_dropped");
    }
    std::mem::forget(r1);
    std::mem::forget(r2);
    std::mem::forget(l);
    std::mem::forget(cfg);
});

// ------------------------------------------------------------------------------------------
// C01/C02: a step-down that does NOT change the term must not forget the vote of that term.
// Real `Raft::handle_internal_event(BecomeFollower)` on a Candidate that has voted for itself in its current term
// (exactly the state `CandidateState::tick` -> `vote_myself` leaves) -- or on a Leader (self vote, committed).
// Afterwards the hard state must still record a vote of the current term; otherwise `handle_vote_request`
// (c01_vote_kernel: no recorded vote + equal term => grant) hands out a SECOND vote in the same term.
// ------------------------------------------------------------------------------------------
fn stepdown_keeps_vote(as_leader: bool) {
    let cfg = shared_default_config();
    let mut raft = mk_raft(cfg.clone());
    let term: u64 = kani::any();
    let f = FollowerState::<VT>::new(1, cfg.clone(), Some(HardState { current_term: term, voted_for: None }), None);
    let mut c = CandidateState::<VT>::from(&f);
    c.vote_myself().unwrap();
    if as_leader {
        let mut l = LeaderState::<VT>::from(&c);
        let _ = l.update_voted_for(d_engine_proto::server::election::VotedFor { voted_for_id: 1, voted_for_term: term, committed: true });
        raft.role = RaftRole::Leader(Box::new(l));
        std::mem::forget(c);
    } else {
        raft.role = RaftRole::Candidate(Box::new(c));
    }
    std::mem::forget(f);
    let before = vh::role_state(&raft.role).shared_state().hard_state;
    assert!(before.voted_for.map_or(false, |v| v.voted_for_id == 1 && v.voted_for_term == term), "harness: self vote recorded");
    let r = run_ready(raft.handle_internal_event(InternalEvent::BecomeFollower(None)));
    std::mem::forget(r);
    let after = vh::role_state(&raft.role).shared_state().hard_state;
    kani::cover!(raft.role.as_i32() == d_engine_proto::common::NodeRole::Follower as i32, "stepped down to follower");
    assert!(after.current_term == term, "C02:term_changed_by_step_down");
    assert!(after.voted_for.map_or(false, |v| v.voted_for_term == term && v.voted_for_id == 1), "C01:vote_of_the_current_term_forgotten_on_same_term_step_down");
    std::mem::forget(raft);
    std::mem::forget(cfg);
}
#[kani::proof]
#[kani::stub(std_catch_unwind, cu)]
#[kani::stub(tracing::level_filters::LevelFilter::current, stub_level_off)]
#[kani::stub(tracing::callsite::DefaultCallsite::register, stub_callsite_register)]
#[kani::stub(tokio::task::coop::poll_proceed, stub_poll_proceed)]
#[kani::stub(std::time::Instant::now, fixed_std_now)]
#[kani::stub(tokio::time::Instant::now, fixed_tokio_now)]
#[kani::stub(vh::ElectionTimer::random_duration, fixed_random_duration)]
#[kani::stub(std::hash::RandomState::new, stub_random_state_new)]
#[kani::stub(std::fmt::format, stub_format)]
#[kani::stub(std::io::_print, stub_print)]
#[kani::unwind(2)]
pub fn c01_candidate_stepdown_keeps_vote() {
    stepdown_keeps_vote(false);
}
