#!/bin/bash
# Build the verification framework offline: pre-build the harness crate's dependencies with kani-compiler
# (the checks rebuild the harness crate and the /repo crates from the current working tree on every run).
set -u
cd "$(dirname "$0")"
export CARGO_NET_OFFLINE=true
mkdir -p .cache evidence replays
for c in core; do
  cp /repo/Cargo.lock kani/$c/Cargo.lock
  [ -f kani/$c/gen.py ] && python3 kani/$c/gen.py >/dev/null
  (cd kani/$c && cargo kani -Z stubbing -Z unstable-options --target-dir ../../.cache/${c}0 --only-codegen --harness h_basic::c12_lease_word --exact > ../../.cache/setup_$c.log 2>&1) || { tail -30 .cache/setup_$c.log; exit 1; }
done
python3 tools/gen_manifest.py >/dev/null
echo "setup ok"
