// replay for property C12, harness core::h_basic::c34_election_and_read_consistency
// run: /verif/check C12 --replay /verif/replays/C12/c34_election_and_read_consistency.rs
#[allow(unused_imports)]
use crate::h_basic::*;
/// Test generated for harness `h_basic::c34_election_and_read_consistency` 
///
/// Check for `assertion`: ""C34:accepted_lease_plus_half_rtt_below_election_min""
///
/// # Warning
///
/// Concrete playback tests combined with stubs or contracts is highly
/// experimental, and subject to change.
///
/// The original harness has stubs which are not applied to this test.
/// This may cause a mismatch of non-deterministic values if the stub
/// creates any non-deterministic value.
/// The execution path may also differ, which can be used to refine the stub
/// logic.

#[test]
fn kani_concrete_playback_c34_election_and_read_consistency_1820959982499073561() {
    let concrete_vals: Vec<Vec<u8>> = vec![
        // 672537544348401734ul
        vec![70, 0, 0, 85, 85, 85, 85, 9],
        // 18446744073709551615ul
        vec![255, 255, 255, 255, 255, 255, 255, 255],
        // 1ul
        vec![1, 0, 0, 0, 0, 0, 0, 0],
        // 4294967295
        vec![255, 255, 255, 255],
        // 253
        vec![253],
        // 4611686018427387895ul
        vec![247, 255, 255, 255, 255, 255, 255, 63],
        // 1
        vec![1],
        // 18446744073709551615ul
        vec![255, 255, 255, 255, 255, 255, 255, 255],
        // 15756593896299167781ul
        vec![37, 0, 0, 171, 170, 170, 170, 218],
    ];
    kani::concrete_playback_run(concrete_vals, c34_election_and_read_consistency);
}
