// replay for property C01, harness core::h_kernels::c01_candidate_vote_legality
// run: /verif/check C01 --replay /verif/replays/C01/c01_candidate_vote_legality.rs
#[allow(unused_imports)]
use crate::h_kernels::*;
/// Test generated for harness `h_kernels::c01_candidate_vote_legality` 
///
/// Check for `assertion`: ""C01:stale_term_vote_request_accepted""
///
/// # Warning
///
/// Concrete playback tests combined with stubs or contracts is highly
/// experimental, and subject to change.
///
/// The original harness has stubs which are not applied to this test.
/// This may cause a mismatch of non-deterministic values if the stub
/// creates any non-deterministic value.
/// The execution path may also differ, which can be used to refine the stub
/// logic.

#[test]
fn kani_concrete_playback_c01_candidate_vote_legality_12783945938789136149() {
    let concrete_vals: Vec<Vec<u8>> = vec![
        // 18446744073709551614ul
        vec![254, 255, 255, 255, 255, 255, 255, 255],
        // 4294967295
        vec![255, 255, 255, 255],
        // 18446744073709551615ul
        vec![255, 255, 255, 255, 255, 255, 255, 255],
        // 18446744073709551615ul
        vec![255, 255, 255, 255, 255, 255, 255, 255],
        // 18446744073709551615ul
        vec![255, 255, 255, 255, 255, 255, 255, 255],
        // 18446744073709551615ul
        vec![255, 255, 255, 255, 255, 255, 255, 255],
        // 18446744073709551614ul
        vec![254, 255, 255, 255, 255, 255, 255, 255],
        // 0
        vec![0],
    ];
    kani::concrete_playback_run(concrete_vals, c01_candidate_vote_legality);
}
