// replay for property C07, harness core::h_kernels::c07_append_request_legality
// run: /verif/check C07 --replay /verif/replays/C07/c07_append_request_legality.rs
#[allow(unused_imports)]
use crate::h_kernels::*;
/// Test generated for harness `h_kernels::c07_append_request_legality` 
///
/// Check for `assertion`: ""C04:request_accepted_without_matching_prev_entry""
///
/// # Warning
///
/// Concrete playback tests combined with stubs or contracts is highly
/// experimental, and subject to change.
///
/// The original harness has stubs which are not applied to this test.
/// This may cause a mismatch of non-deterministic values if the stub
/// creates any non-deterministic value.
/// The execution path may also differ, which can be used to refine the stub
/// logic.

#[test]
fn kani_concrete_playback_c07_append_request_legality_2366490477945939395() {
    let concrete_vals: Vec<Vec<u8>> = vec![
        // 4ul
        vec![4, 0, 0, 0, 0, 0, 0, 0],
        // 1ul
        vec![1, 0, 0, 0, 0, 0, 0, 0],
        // 1ul
        vec![1, 0, 0, 0, 0, 0, 0, 0],
        // 1ul
        vec![1, 0, 0, 0, 0, 0, 0, 0],
        // 32ul
        vec![32, 0, 0, 0, 0, 0, 0, 0],
        // 4611686018427387904ul
        vec![0, 0, 0, 0, 0, 0, 0, 64],
        // 9223372036854775808ul
        vec![0, 0, 0, 0, 0, 0, 0, 128],
        // 7ul
        vec![7, 0, 0, 0, 0, 0, 0, 0],
        // 0ul
        vec![0, 0, 0, 0, 0, 0, 0, 0],
        // 18446744073709551615ul
        vec![255, 255, 255, 255, 255, 255, 255, 255],
    ];
    kani::concrete_playback_run(concrete_vals, c07_append_request_legality);
}
