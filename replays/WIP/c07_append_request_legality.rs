// replay for property WIP, harness core::h_kernels::c07_append_request_legality
// run: /verif/check WIP --replay /verif/replays/WIP/c07_append_request_legality.rs
#[allow(unused_imports)]
use crate::h_kernels::*;
/// Test generated for harness `h_kernels::c07_append_request_legality` 
///
/// Check for `cover`: "prev entry matches"
///
/// # Warning
///
/// Concrete playback tests combined with stubs or contracts is highly
/// experimental, and subject to change.
///
/// The original harness has stubs which are not applied to this test.
/// This may cause a mismatch of non-deterministic values if the stub
/// creates any non-deterministic value.
/// The execution path may also differ, which can be used to refine the stub
/// logic.

#[test]
fn kani_concrete_playback_c07_append_request_legality_14435476475676892295() {
    let concrete_vals: Vec<Vec<u8>> = vec![
        // 4ul
        vec![4, 0, 0, 0, 0, 0, 0, 0],
        // 640ul
        vec![128, 2, 0, 0, 0, 0, 0, 0],
        // 640ul
        vec![128, 2, 0, 0, 0, 0, 0, 0],
        // 704ul
        vec![192, 2, 0, 0, 0, 0, 0, 0],
        // 712ul
        vec![200, 2, 0, 0, 0, 0, 0, 0],
        // 4611686018427387897ul
        vec![249, 255, 255, 255, 255, 255, 255, 63],
        // 4611686018427387901ul
        vec![253, 255, 255, 255, 255, 255, 255, 63],
        // 3ul
        vec![3, 0, 0, 0, 0, 0, 0, 0],
        // 704ul
        vec![192, 2, 0, 0, 0, 0, 0, 0],
        // 18446744073709551615ul
        vec![255, 255, 255, 255, 255, 255, 255, 255],
    ];
    kani::concrete_playback_run(concrete_vals, c07_append_request_legality);
}
