// replay for property WIP, harness core::h_more::c37_convert_ttl_zero
// run: /verif/check WIP --replay /verif/replays/WIP/c37_convert_ttl_zero.rs
#[allow(unused_imports)]
use crate::h_more::*;
/// Test generated for harness `h_more::c37_convert_ttl_zero` 
///
/// Check for `cover`: "put with TTL 0"
///
/// # Warning
///
/// Concrete playback tests combined with stubs or contracts is highly
/// experimental, and subject to change.
///
/// The original harness has stubs which are not applied to this test.
/// This may cause a mismatch of non-deterministic values if the stub
/// creates any non-deterministic value.
/// The execution path may also differ, which can be used to refine the stub
/// logic.

#[test]
fn kani_concrete_playback_c37_convert_ttl_zero_8981660834018179675() {
    let concrete_vals: Vec<Vec<u8>> = vec![
        // 0
        vec![0],
    ];
    kani::concrete_playback_run(concrete_vals, c37_convert_ttl_zero);
}
