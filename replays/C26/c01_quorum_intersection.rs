// replay for property C26, harness core::h_basic::c01_quorum_intersection
// run: /verif/check C26 --replay /verif/replays/C26/c01_quorum_intersection.rs
#[allow(unused_imports)]
use crate::h_basic::*;
/// Test generated for harness `h_basic::c01_quorum_intersection` 
///
/// Check for `assertion`: ""C01:two_majorities_of_one_set_intersect""

#[test]
fn kani_concrete_playback_c01_quorum_intersection_12982161806219243561() {
    let concrete_vals: Vec<Vec<u8>> = vec![
        // 1099511627776ul
        vec![0, 0, 0, 0, 0, 1, 0, 0],
        // 549755813888ul
        vec![0, 0, 0, 0, 128, 0, 0, 0],
        // 549755813888ul
        vec![0, 0, 0, 0, 128, 0, 0, 0],
    ];
    kani::concrete_playback_run(concrete_vals, c01_quorum_intersection);
}
