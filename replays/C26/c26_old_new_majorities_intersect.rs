// replay for property C26, harness core::h_basic::c26_old_new_majorities_intersect
// run: /verif/check C26 --replay /verif/replays/C26/c26_old_new_majorities_intersect.rs
#[allow(unused_imports)]
use crate::h_basic::*;
/// Test generated for harness `h_basic::c26_old_new_majorities_intersect` 
///
/// Check for `assertion`: ""C26:old_and_new_majorities_can_be_disjoint""

#[test]
fn kani_concrete_playback_c26_old_new_majorities_intersect_1624272032886409847() {
    let concrete_vals: Vec<Vec<u8>> = vec![
        // 64ul
        vec![64, 0, 0, 0, 0, 0, 0, 0],
        // 64ul
        vec![64, 0, 0, 0, 0, 0, 0, 0],
    ];
    kani::concrete_playback_run(concrete_vals, c26_old_new_majorities_intersect);
}
