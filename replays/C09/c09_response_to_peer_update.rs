// replay for property C09, harness core::h_repl::c09_response_to_peer_update
// run: /verif/check C09 --replay /verif/replays/C09/c09_response_to_peer_update.rs
#[allow(unused_imports)]
use crate::h_repl::*;
/// Test generated for harness `h_repl::c09_response_to_peer_update` 
///
/// Check for `assertion`: ""C09:conflict_never_raises_match_index""
///
/// # Warning
///
/// Concrete playback tests combined with stubs or contracts is highly
/// experimental, and subject to change.
///
/// The original harness has stubs which are not applied to this test.
/// This may cause a mismatch of non-deterministic values if the stub
/// creates any non-deterministic value.
/// The execution path may also differ, which can be used to refine the stub
/// logic.

#[test]
fn kani_concrete_playback_c09_response_to_peer_update_6414311917394041559() {
    let concrete_vals: Vec<Vec<u8>> = vec![
        // 0ul
        vec![0, 0, 0, 0, 0, 0, 0, 0],
        // 4ul
        vec![4, 0, 0, 0, 0, 0, 0, 0],
        // 5ul
        vec![5, 0, 0, 0, 0, 0, 0, 0],
        // 5ul
        vec![5, 0, 0, 0, 0, 0, 0, 0],
        // 994ul
        vec![226, 3, 0, 0, 0, 0, 0, 0],
        // 18446744073709551615ul
        vec![255, 255, 255, 255, 255, 255, 255, 255],
        // 18446744073709551614ul
        vec![254, 255, 255, 255, 255, 255, 255, 255],
        // 1
        vec![1],
        // 18446744073709551614ul
        vec![254, 255, 255, 255, 255, 255, 255, 255],
        // 18446744073709551615ul
        vec![255, 255, 255, 255, 255, 255, 255, 255],
        // 1
        vec![1],
        // 4ul
        vec![4, 0, 0, 0, 0, 0, 0, 0],
        // 1
        vec![1],
        // 2ul
        vec![2, 0, 0, 0, 0, 0, 0, 0],
        // 18446744073709551615ul
        vec![255, 255, 255, 255, 255, 255, 255, 255],
    ];
    kani::concrete_playback_run(concrete_vals, c09_response_to_peer_update);
}
