// replay for property C03, harness core::h_kernels::c03_single_node_predicate
// run: /verif/check C03 --replay /verif/replays/C03/c03_single_node_predicate.rs
#[allow(unused_imports)]
use crate::h_kernels::*;
/// Test generated for harness `h_kernels::c03_single_node_predicate` 
///
/// Check for `assertion`: ""C03:vote_collection_skipped_while_other_voters_exist""
///
/// # Warning
///
/// Concrete playback tests combined with stubs or contracts is highly
/// experimental, and subject to change.
///
/// The original harness has stubs which are not applied to this test.
/// This may cause a mismatch of non-deterministic values if the stub
/// creates any non-deterministic value.
/// The execution path may also differ, which can be used to refine the stub
/// logic.

#[test]
fn kani_concrete_playback_c03_single_node_predicate_10569532034702987832() {
    let concrete_vals: Vec<Vec<u8>> = vec![
        // 3ul
        vec![3, 0, 0, 0, 0, 0, 0, 0],
        // 6
        vec![6],
        // 1ul
        vec![1, 0, 0, 0, 0, 0, 0, 0],
    ];
    kani::concrete_playback_run(concrete_vals, c03_single_node_predicate);
}
