// replay for property C05, harness core::h_election::c01_vote_kernel
// run: /verif/check C05 --replay /verif/replays/C05/c01_vote_kernel.rs
#[allow(unused_imports)]
use crate::h_election::*;
/// Test generated for harness `h_election::c01_vote_kernel` 
///
/// Check for `assertion`: ""C05:vote_granted_only_to_up_to_date_candidate""
///
/// # Warning
///
/// Concrete playback tests combined with stubs or contracts is highly
/// experimental, and subject to change.
///
/// The original harness has stubs which are not applied to this test.
/// This may cause a mismatch of non-deterministic values if the stub
/// creates any non-deterministic value.
/// The execution path may also differ, which can be used to refine the stub
/// logic.

#[test]
fn kani_concrete_playback_c01_vote_kernel_1025927800003359134() {
    let concrete_vals: Vec<Vec<u8>> = vec![
        // 2ul
        vec![2, 0, 0, 0, 0, 0, 0, 0],
        // 1ul
        vec![1, 0, 0, 0, 0, 0, 0, 0],
        // 1ul
        vec![1, 0, 0, 0, 0, 0, 0, 0],
        // 16140901339373886592ul
        vec![128, 220, 1, 0, 64, 0, 0, 224],
        // 1
        vec![1],
        // 4294967295
        vec![255, 255, 255, 255],
        // 16140901339373886592ul
        vec![128, 220, 1, 0, 64, 0, 0, 224],
        // 0
        vec![0],
        // 16140901339373886592ul
        vec![128, 220, 1, 0, 64, 0, 0, 224],
        // 4294967295
        vec![255, 255, 255, 255],
        // 1ul
        vec![1, 0, 0, 0, 0, 0, 0, 0],
        // 1ul
        vec![1, 0, 0, 0, 0, 0, 0, 0],
    ];
    kani::concrete_playback_run(concrete_vals, c01_vote_kernel);
}
