// replay for property C34, harness core::h_basic::c34_election_and_read_consistency
// run: /verif/check C34 --replay /verif/replays/C34/c34_election_and_read_consistency.rs
#[allow(unused_imports)]
use crate::h_basic::*;
/// Test generated for harness `h_basic::c34_election_and_read_consistency` 
///
/// Check for `assertion`: ""C34:accepted_election_min_below_max""
///
/// # Warning
///
/// Concrete playback tests combined with stubs or contracts is highly
/// experimental, and subject to change.
///
/// The original harness has stubs which are not applied to this test.
/// This may cause a mismatch of non-deterministic values if the stub
/// creates any non-deterministic value.
/// The execution path may also differ, which can be used to refine the stub
/// logic.

#[test]
fn kani_concrete_playback_c34_election_and_read_consistency_5364817669811123001() {
    let concrete_vals: Vec<Vec<u8>> = vec![
        // 9223372036854775808ul
        vec![0, 0, 0, 0, 0, 0, 0, 128],
        // 9223372036854775808ul
        vec![0, 0, 0, 0, 0, 0, 0, 128],
        // 9223372036854775808ul
        vec![0, 0, 0, 0, 0, 0, 0, 128],
        // 0
        vec![0, 0, 0, 0],
    ];
    kani::concrete_playback_run(concrete_vals, c34_election_and_read_consistency);
}
