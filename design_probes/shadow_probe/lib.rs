pub mod model;
pub mod types;
pub mod brl;
