// Child module of the shadow copy: has access to its private items.
use super::*;
use crate::types::*;
use d_engine_proto::common::{Entry, LogId};
use std::sync::Arc;
use std::future::Future;
use std::task::{Context, Poll, RawWaker, RawWakerVTable, Waker};

pub fn cu<F: FnOnce() -> R + std::panic::UnwindSafe, R>(f: F) -> std::thread::Result<R> { Ok(f()) }
#[allow(unused_imports)]
use std::panic::catch_unwind as std_catch_unwind;

fn noop_waker() -> Waker {
    fn noop(_: *const ()) {}
    fn clone(_: *const ()) -> RawWaker { RawWaker::new(std::ptr::null(), &VTABLE) }
    static VTABLE: RawWakerVTable = RawWakerVTable::new(clone, noop, noop, noop);
    unsafe { Waker::from_raw(RawWaker::new(std::ptr::null(), &VTABLE)) }
}

/// Drive `fut`; whenever it suspends, service one queued IO task with the real handler.
fn drive<F: Future>(log: &Arc<BufferedRaftLog<VT>>, rx: &mut mpsc::UnboundedReceiver<IOTask>, fut: F) -> F::Output {
    let w = noop_waker();
    let mut cx = Context::from_waker(&w);
    let mut fut = std::pin::pin!(fut);
    let mut pending_max = 0u64;
    let mut rounds = 0;
    loop {
        if let Poll::Ready(v) = fut.as_mut().poll(&mut cx) { return v; }
        let cmd = rx.try_recv().expect("suspended without queued IO task");
        let fatal = run_ready(BufferedRaftLog::<VT>::handle_non_write_cmd(cmd, log, &mut pending_max));
        assert!(!fatal);
        rounds += 1; assert!(rounds < 3);
    }
}

const N: usize = 3;

#[kani::proof]
#[kani::stub(std_catch_unwind, cu)]
#[kani::unwind(6)]
fn shadow_conflict_append() {
    let (raw, mut rx) = BufferedRaftLog::<VT>::new(1, d_engine_core::PersistenceConfig::default(), Arc::new(VStorage));
    let log = Arc::new(raw);
    // initial log: n entries, non-decreasing terms in 1..=3
    let n: usize = kani::any(); kani::assume(n <= N);
    let t: [u64; N] = kani::any();
    let mut init = Vec::new();
    let mut i = 0;
    while i < n {
        kani::assume(t[i] >= 1 && t[i] <= 3);
        if i > 0 { kani::assume(t[i] >= t[i-1]); }
        init.push(Entry { index: (i as u64) + 1, term: t[i], payload: None });
        i += 1;
    }
    run_ready(log.append_entries(init)).unwrap();
    assert!(log.last_entry_id() == n as u64);

    // incoming request: prev in 0..=n, 1..=2 contiguous entries with non-decreasing terms
    let prev: u64 = kani::any(); kani::assume(prev <= n as u64);
    let prev_term: u64 = kani::any(); kani::assume(prev_term <= 3);
    let m: usize = kani::any(); kani::assume(m >= 1 && m <= 2);
    let nt: [u64; 2] = kani::any();
    let mut newe = Vec::new();
    let mut j = 0;
    while j < m {
        kani::assume(nt[j] >= 1 && nt[j] <= 3);
        if j > 0 { kani::assume(nt[j] >= nt[j-1]); } else { kani::assume(nt[0] >= prev_term); }
        newe.push(Entry { index: prev + 1 + j as u64, term: nt[j], payload: None });
        j += 1;
    }
    let matched = (prev == 0 && prev_term == 0) || (prev >= 1 && t[(prev - 1) as usize] == prev_term);
    let _ = drive(&log, &mut rx, log.filter_out_conflicts_and_append(prev, prev_term, newe)).unwrap();

    if matched {
        // every sent entry is now in the log with the sent term; prefix up to prev untouched
        let mut k = 0;
        while k < m { assert!(log.entry_term(prev + 1 + k as u64) == Some(nt[k])); k += 1; }
        let mut p = 1u64;
        while p <= prev { assert!(log.entry_term(p) == Some(t[(p - 1) as usize])); p += 1; }
        // gap-free
        let last = log.last_entry_id();
        let mut q = 1u64;
        while q <= last { assert!(log.entry(q).unwrap().is_some()); q += 1; }
    } else {
        assert!(log.last_entry_id() == n as u64);
    }
    kani::cover!(matched && prev < n as u64);
    std::mem::forget(log);
}
