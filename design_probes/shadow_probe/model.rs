//! Sequential models of the concurrency primitives used by buffered_raft_log.rs.
use std::ops::RangeBounds;
use std::sync::{Arc, Mutex};

pub struct Entry<K, V> { k: K, v: Arc<V> }
impl<K, V> Entry<K, V> {
    pub fn key(&self) -> &K { &self.k }
    pub fn value(&self) -> &V { &self.v }
}
/// Ordered map over a small Vec kept sorted by key.
pub struct SkipMap<K, V> { inner: Mutex<Vec<(K, Arc<V>)>> }
impl<K: Ord + Copy, V> SkipMap<K, V> {
    pub fn new() -> Self { Self { inner: Mutex::new(Vec::new()) } }
    fn snapshot(&self) -> Vec<(K, Arc<V>)> { self.inner.lock().unwrap().iter().map(|(k, v)| (*k, v.clone())).collect() }
    pub fn get(&self, k: &K) -> Option<Entry<K, V>> {
        let g = self.inner.lock().unwrap();
        let mut i = 0; while i < g.len() { if g[i].0 == *k { return Some(Entry { k: g[i].0, v: g[i].1.clone() }); } i += 1; } None
    }
    pub fn insert(&self, k: K, v: V) -> Entry<K, V> {
        let mut g = self.inner.lock().unwrap();
        let a = Arc::new(v);
        let mut i = 0;
        while i < g.len() && g[i].0 < k { i += 1; }
        if i < g.len() && g[i].0 == k { g[i].1 = a.clone(); } else { g.insert(i, (k, a.clone())); }
        Entry { k, v: a }
    }
    pub fn get_or_insert(&self, k: K, v: V) -> Entry<K, V> {
        if let Some(e) = self.get(&k) { e } else { self.insert(k, v) }
    }
    pub fn remove(&self, k: &K) -> Option<Entry<K, V>> {
        let mut g = self.inner.lock().unwrap();
        let mut i = 0; while i < g.len() { if g[i].0 == *k { let (kk, vv) = g.remove(i); return Some(Entry { k: kk, v: vv }); } i += 1; } None
    }
    pub fn front(&self) -> Option<Entry<K, V>> { let g = self.inner.lock().unwrap(); g.first().map(|(k, v)| Entry { k: *k, v: v.clone() }) }
    pub fn back(&self) -> Option<Entry<K, V>> { let g = self.inner.lock().unwrap(); g.last().map(|(k, v)| Entry { k: *k, v: v.clone() }) }
    pub fn iter(&self) -> std::vec::IntoIter<Entry<K, V>> { self.snapshot().into_iter().map(|(k, v)| Entry { k, v }).collect::<Vec<_>>().into_iter() }
    pub fn range<R: RangeBounds<K>>(&self, r: R) -> std::vec::IntoIter<Entry<K, V>> {
        self.snapshot().into_iter().filter(|(k, _)| r.contains(k)).map(|(k, v)| Entry { k, v }).collect::<Vec<_>>().into_iter()
    }
    pub fn clear(&self) { self.inner.lock().unwrap().clear(); }
    pub fn is_empty(&self) -> bool { self.inner.lock().unwrap().is_empty() }
    pub fn len(&self) -> usize { self.inner.lock().unwrap().len() }
}

pub struct Notify { pub count: Mutex<u64> }
impl Notify {
    pub fn new() -> Self { Self { count: Mutex::new(0) } }
    pub fn notify_one(&self) { *self.count.lock().unwrap() += 1; }
    pub async fn notified(&self) { std::future::pending::<()>().await }
}

pub mod mpsc {
    use std::collections::VecDeque;
    use std::sync::{Arc, Mutex};
    pub struct UnboundedSender<T> { q: Arc<Mutex<VecDeque<T>>> }
    pub struct UnboundedReceiver<T> { q: Arc<Mutex<VecDeque<T>>> }
    impl<T> Clone for UnboundedSender<T> { fn clone(&self) -> Self { Self { q: self.q.clone() } } }
    #[derive(Debug)] pub struct SendError<T>(pub T);
    #[derive(Debug)] pub struct TryRecvError;
    pub fn unbounded_channel<T>() -> (UnboundedSender<T>, UnboundedReceiver<T>) {
        let q = Arc::new(Mutex::new(VecDeque::new()));
        (UnboundedSender { q: q.clone() }, UnboundedReceiver { q })
    }
    impl<T> UnboundedSender<T> { pub fn send(&self, v: T) -> Result<(), SendError<T>> { self.q.lock().unwrap().push_back(v); Ok(()) } }
    impl<T> UnboundedReceiver<T> {
        pub fn try_recv(&mut self) -> Result<T, TryRecvError> { self.q.lock().unwrap().pop_front().ok_or(TryRecvError) }
        pub async fn recv(&mut self) -> Option<T> { self.q.lock().unwrap().pop_front() }
    }
}
