pub mod verif_hooks {
    //! Guarded accessors used only by out-of-tree Kani harnesses.
    use crate::*;
    use tokio::sync::mpsc;

    pub async fn raft_step_inbound<T: TypeConfig>(raft: &mut Raft<T>, ev: InboundEvent) -> Result<()> {
        let tx = raft.internal_event_sender();
        raft.role.handle_inbound_event(ev, &raft.ctx, tx).await
    }
    pub fn election_timer_stub_random(_min: u64, _max: u64) -> tokio::time::Duration {
        tokio::time::Duration::from_millis(1)
    }
    pub fn hard_state<T: TypeConfig>(raft: &Raft<T>) -> HardState {
        raft.role.state().shared_state().hard_state
    }
    pub fn role_i32<T: TypeConfig>(raft: &Raft<T>) -> i32 { raft.role.as_i32() }
    pub fn _unused(_: mpsc::UnboundedSender<u8>) {}
    pub use crate::timer::ElectionTimer;
    pub use crate::timer::ReplicationTimer;
}
