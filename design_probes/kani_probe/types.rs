//! Minimal TypeConfig with array-backed deterministic stubs.
use std::ops::RangeInclusive;
use std::sync::Arc;
use std::sync::Mutex;

use async_trait::async_trait;
use bytes::Bytes;
use d_engine_core::*;
use d_engine_proto::common::{Entry, LogId, MembershipChange, NodeStatus};
use d_engine_proto::server::cluster::*;
use d_engine_proto::server::election::*;
use d_engine_proto::server::replication::*;
use d_engine_proto::server::storage::*;
use futures::stream::BoxStream;

#[derive(Debug)]
pub struct VT;
impl TypeConfig for VT {
    type SE = VStorage;
    type SM = VSm;
    type R = VLog;
    type M = VMem;
    type TR = VTr;
    type E = ElectionHandler<VT>;
    type REP = ReplicationHandler<VT>;
    type C = VCommit;
    type SMH = VSmh;
    type SNP = VSnp;
    type PE = VPurge;
}

pub const MAXLOG: usize = 4;
/// Model log: entries at index 1..=len with terms[i-1]; purged prefix not modelled.
#[derive(Debug)]
pub struct VLog {
    pub inner: Mutex<VLogInner>,
}
#[derive(Debug, Clone)]
pub struct VLogInner {
    pub len: u64,
    pub terms: [u64; MAXLOG],
}
impl VLog {
    pub fn new(len: u64, terms: [u64; MAXLOG]) -> Self { Self { inner: Mutex::new(VLogInner { len, terms }) } }
}
#[async_trait]
impl RaftLog for VLog {
    fn entry(&self, index: u64) -> Result<Option<Entry>> {
        let g = self.inner.lock().unwrap();
        if index >= 1 && index <= g.len { Ok(Some(Entry { index, term: g.terms[(index-1) as usize], payload: None })) } else { Ok(None) }
    }
    fn first_entry_id(&self) -> u64 { let g = self.inner.lock().unwrap(); if g.len > 0 {1} else {0} }
    fn last_entry_id(&self) -> u64 { self.inner.lock().unwrap().len }
    fn durable_index(&self) -> u64 { self.inner.lock().unwrap().len }
    fn last_log_id(&self) -> Option<LogId> {
        let g = self.inner.lock().unwrap();
        if g.len == 0 { None } else { Some(LogId { index: g.len, term: g.terms[(g.len-1) as usize] }) }
    }
    fn last_entry(&self) -> Option<Entry> { let l = self.last_entry_id(); self.entry(l).ok().flatten() }
    fn is_empty(&self) -> bool { self.last_entry_id() == 0 }
    fn entry_term(&self, entry_id: u64) -> Option<u64> {
        let g = self.inner.lock().unwrap();
        if entry_id >= 1 && entry_id <= g.len { Some(g.terms[(entry_id-1) as usize]) } else { None }
    }
    fn first_index_for_term(&self, term: u64) -> Option<u64> {
        let g = self.inner.lock().unwrap();
        let mut i = 0; while i < g.len { if g.terms[i as usize] == term { return Some(i+1);} i+=1; } None
    }
    fn last_index_for_term(&self, term: u64) -> Option<u64> {
        let g = self.inner.lock().unwrap();
        let mut i = g.len; while i > 0 { if g.terms[(i-1) as usize] == term { return Some(i);} i-=1; } None
    }
    fn get_entries_range(&self, range: RangeInclusive<u64>) -> Result<Vec<Entry>> {
        let g = self.inner.lock().unwrap();
        let mut v = Vec::new();
        let mut i = *range.start();
        while i <= *range.end() && i <= g.len { if i>=1 { v.push(Entry{index:i, term:g.terms[(i-1) as usize], payload:None}); } i+=1; }
        Ok(v)
    }
    fn pre_allocate_raft_logs_next_index(&self) -> u64 { unimplemented!() }
    fn pre_allocate_id_range(&self, _count: u64) -> RangeInclusive<u64> { unimplemented!() }
    async fn append_entries(&self, _entries: Vec<Entry>) -> Result<()> { unimplemented!() }
    async fn filter_out_conflicts_and_append(&self, _p: u64, _t: u64, _e: Vec<Entry>) -> Result<Option<LogId>> { unimplemented!() }
    fn calculate_majority_matched_index(&self, _c: u64, _ci: u64, _m: Vec<u64>) -> Option<u64> { unimplemented!() }
    async fn purge_logs_up_to(&self, _c: LogId) -> Result<()> { unimplemented!() }
    async fn flush(&self) -> Result<()> { Ok(()) }
    async fn reset(&self) -> Result<()> { unimplemented!() }
    fn load_hard_state(&self) -> Result<Option<HardState>> { Ok(None) }
    fn save_hard_state(&self, _h: &HardState) -> Result<()> { Ok(()) }
}

#[derive(Debug)] pub struct VStorage;
#[derive(Debug)] pub struct VLogStore;
#[derive(Debug)] pub struct VMetaStore;
impl StorageEngine for VStorage {
    type LogStore = VLogStore; type MetaStore = VMetaStore;
    fn log_store(&self) -> Arc<VLogStore> { Arc::new(VLogStore) }
    fn meta_store(&self) -> Arc<VMetaStore> { Arc::new(VMetaStore) }
}
#[async_trait]
impl LogStore for VLogStore {
    async fn persist_entries(&self, _e: Vec<Entry>) -> std::result::Result<(), Error> { Ok(()) }
    async fn entry(&self, _i: u64) -> std::result::Result<Option<Entry>, Error> { Ok(None) }
    fn get_entries(&self, _r: RangeInclusive<u64>) -> std::result::Result<Vec<Entry>, Error> { Ok(vec![]) }
    async fn purge(&self, _c: LogId) -> std::result::Result<(), Error> { Ok(()) }
    async fn truncate(&self, _f: u64) -> std::result::Result<(), Error> { Ok(()) }
    fn is_write_durable(&self) -> bool { true }
    async fn reset(&self) -> std::result::Result<(), Error> { Ok(()) }
    fn last_index(&self) -> u64 { 0 }
}
impl MetaStore for VMetaStore {
    fn save_hard_state(&self, _s: &HardState) -> std::result::Result<(), Error> { Ok(()) }
    fn load_hard_state(&self) -> std::result::Result<Option<HardState>, Error> { Ok(None) }
}

#[derive(Debug)] pub struct VSm;
#[async_trait]
impl StateMachine for VSm {
    async fn start(&self) -> std::result::Result<(), Error> { Ok(()) }
    fn stop(&self) -> std::result::Result<(), Error> { Ok(()) }
    fn is_running(&self) -> bool { true }
    fn get(&self, _k: &[u8]) -> std::result::Result<Option<Bytes>, Error> { Ok(None) }
    fn entry_term(&self, _e: u64) -> Option<u64> { None }
    async fn apply_chunk(&self, _c: &[ApplyEntry]) -> std::result::Result<Vec<ApplyResult>, Error> { Ok(vec![]) }
    fn len(&self) -> usize { 0 }
    fn update_last_applied(&self, _l: LogId) {}
    fn last_applied(&self) -> LogId { LogId { index: 0, term: 0 } }
    fn persist_last_applied(&self, _l: LogId) -> std::result::Result<(), Error> { Ok(()) }
    fn update_last_snapshot_metadata(&self, _s: &SnapshotMetadata) -> std::result::Result<(), Error> { Ok(()) }
    fn snapshot_metadata(&self) -> Option<SnapshotMetadata> { None }
    fn persist_last_snapshot_metadata(&self, _s: &SnapshotMetadata) -> std::result::Result<(), Error> { Ok(()) }
    async fn apply_snapshot_from_file(&self, _m: &SnapshotMetadata, _p: std::path::PathBuf) -> std::result::Result<(), Error> { Ok(()) }
    async fn generate_snapshot_data(&self, _d: std::path::PathBuf, _l: LogId) -> std::result::Result<Bytes, Error> { Ok(Bytes::new()) }
    fn save_hard_state(&self) -> std::result::Result<(), Error> { Ok(()) }
    fn flush(&self) -> std::result::Result<(), Error> { Ok(()) }
    async fn flush_async(&self) -> std::result::Result<(), Error> { Ok(()) }
    async fn reset(&self) -> std::result::Result<(), Error> { Ok(()) }
}

#[derive(Debug)] pub struct VSmh;
#[async_trait]
impl StateMachineHandler<VT> for VSmh {
    fn last_applied(&self) -> u64 { 0 }
    fn update_pending(&self, _n: u64) {}
    async fn wait_applied(&self, _t: u64, _d: std::time::Duration) -> Result<()> { Ok(()) }
    async fn apply_chunk(&self, _c: Vec<Entry>) -> Result<Vec<ApplyResult>> { Ok(vec![]) }
    fn read_from_state_machine(&self, _k: Vec<Bytes>) -> Option<Vec<d_engine_core::client::KvEntry>> { None }
    async fn apply_snapshot_stream_from_leader(&self, _t: u64, _r: tokio::sync::mpsc::Receiver<SnapshotChunk>, _a: tokio::sync::mpsc::Sender<SnapshotAck>, _c: &SnapshotConfig) -> Result<()> { Ok(()) }
    fn should_snapshot(&self, _n: NewCommitData) -> bool { false }
    async fn create_snapshot(&self) -> Result<(SnapshotMetadata, std::path::PathBuf)> { unimplemented!() }
    async fn cleanup_snapshot(&self, _b: u64, _d: &std::path::Path, _p: &str) -> Result<()> { Ok(()) }
    fn get_latest_snapshot_metadata(&self) -> Option<SnapshotMetadata> { None }
    async fn load_snapshot_data(&self, _m: SnapshotMetadata) -> Result<BoxStream<'static, Result<SnapshotChunk>>> { unimplemented!() }
    async fn load_snapshot_chunk(&self, _m: &SnapshotMetadata, _s: u32) -> Result<SnapshotChunk> { unimplemented!() }
    fn pending_range(&self) -> Option<RangeInclusive<u64>> { None }
}

#[derive(Debug)] pub struct VSnp;
impl SnapshotPolicy for VSnp {
    fn should_trigger(&self, _c: &SnapshotContext) -> bool { false }
    fn mark_snapshot_created(&mut self) {}
}
#[derive(Debug)] pub struct VPurge;
#[async_trait]
impl PurgeExecutor for VPurge { async fn execute_purge(&self, _l: LogId) -> Result<()> { Ok(()) } }
#[derive(Debug)] pub struct VCommit;
#[async_trait]
impl CommitHandler for VCommit { async fn run(&mut self) -> Result<()> { Ok(()) } }

pub const MAXPEERS: usize = 4;
/// Membership stub: `initial_size` and voter ids are harness-chosen values.
#[derive(Debug)]
pub struct VMem { pub initial_size: usize, pub nvoters: usize }
#[async_trait]
impl Membership<VT> for VMem {
    async fn members(&self) -> Vec<NodeMeta> { vec![] }
    async fn replication_peers(&self) -> Vec<NodeMeta> { vec![] }
    async fn voters(&self) -> Vec<NodeMeta> {
        let mut v = Vec::new(); let mut i = 0;
        while i < self.nvoters { v.push(NodeMeta { id: (i as u32)+2, address: String::new(), role: 0, status: NodeStatus::Active as i32 }); i+=1; }
        v
    }
    async fn initial_cluster_size(&self) -> usize { self.initial_size }
    async fn nodes_with_status(&self, _s: NodeStatus) -> Vec<NodeMeta> { vec![] }
    async fn get_node_status(&self, _n: u32) -> Option<NodeStatus> { None }
    async fn check_cluster_is_ready(&self) -> Result<()> { Ok(()) }
    async fn get_peers_id_with_condition<F>(&self, _c: F) -> Vec<u32> where F: Fn(i32) -> bool + Send + Sync + 'static { vec![] }
    async fn retrieve_cluster_membership_config(&self, _l: Option<u32>) -> ClusterMembership { unimplemented!() }
    async fn update_cluster_conf_from_leader(&self, _a: u32, _b: u64, _c: u64, _d: Option<u32>, _e: &ClusterConfChangeRequest) -> Result<ClusterConfUpdateResponse> { unimplemented!() }
    async fn get_cluster_conf_version(&self) -> u64 { 0 }
    async fn update_conf_version(&self, _v: u64) {}
    async fn incr_conf_version(&self) {}
    async fn add_learner(&self, _n: u32, _a: String, _s: NodeStatus) -> Result<()> { Ok(()) }
    async fn activate_node(&mut self, _n: u32) -> Result<()> { Ok(()) }
    async fn update_node_status(&self, _n: u32, _s: NodeStatus) -> Result<()> { Ok(()) }
    async fn contains_node(&self, _n: u32) -> bool { false }
    async fn retrieve_node_meta(&self, _n: u32) -> Option<NodeMeta> { None }
    async fn remove_node(&self, _n: u32) -> Result<()> { Ok(()) }
    async fn force_remove_node(&self, _n: u32) -> Result<()> { Ok(()) }
    async fn get_all_nodes(&self) -> Vec<NodeMeta> { vec![] }
    async fn pre_warm_connections(&self) -> Result<()> { Ok(()) }
    async fn get_peer_channel(&self, _n: u32, _c: ConnectionType) -> Option<tonic::transport::Channel> { None }
    async fn get_address(&self, _n: u32) -> Option<String> { None }
    async fn apply_config_change(&self, _c: MembershipChange) -> Result<()> { Ok(()) }
    async fn notify_config_applied(&self, _i: u64) {}
    async fn can_rejoin(&self, _n: u32, _r: i32) -> Result<()> { Ok(()) }
}

/// Transport stub: returns harness-chosen vote responses.
pub struct VTr { pub votes: Mutex<Option<VoteResult>> }
#[async_trait]
impl Transport<VT> for VTr {
    async fn send_cluster_update(&self, _r: ClusterConfChangeRequest, _p: &RetryPolicies, _m: Arc<VMem>) -> Result<ClusterUpdateResult> { unimplemented!() }
    async fn send_append_requests(&self, _r: Vec<(u32, AppendEntriesRequest)>, _p: &RetryPolicies, _m: Arc<VMem>, _c: bool) -> Result<AppendResult> { unimplemented!() }
    async fn send_vote_requests(&self, _r: VoteRequest, _p: &RetryPolicies, _m: Arc<VMem>) -> Result<VoteResult> {
        Ok(self.votes.lock().unwrap().take().unwrap())
    }
    async fn join_cluster(&self, _l: u32, _r: JoinRequest, _p: BackoffPolicy, _m: Arc<VMem>) -> Result<JoinResponse> { unimplemented!() }
    async fn discover_leader(&self, _r: LeaderDiscoveryRequest, _c: bool, _m: Arc<VMem>) -> Result<Vec<LeaderDiscoveryResponse>> { unimplemented!() }
    async fn send_append_request(&self, _p: u32, _r: AppendEntriesRequest, _rp: &RetryPolicies, _m: Arc<VMem>, _c: bool) -> Result<AppendEntriesResponse> { unimplemented!() }
    async fn send_snapshot(&self, _p: u32, _md: SnapshotMetadata, _s: Arc<VSmh>, _m: Arc<VMem>, _c: SnapshotConfig) -> Result<()> { unimplemented!() }
    async fn request_snapshot_from_leader(&self, _l: u32, _a: tokio::sync::mpsc::Receiver<SnapshotAck>, _r: &InstallSnapshotBackoffPolicy, _m: Arc<VMem>) -> Result<tokio::sync::mpsc::Receiver<SnapshotChunk>> { unimplemented!() }
    async fn open_replication_stream(&self, _p: u32, _m: Arc<VMem>, _c: bool) -> Result<ReplicationStream> { unimplemented!() }
}

/// Poll a future that is expected to complete without suspending.
pub fn run_ready<F: std::future::Future>(f: F) -> F::Output {
    use std::task::{Context, Poll, RawWaker, RawWakerVTable, Waker};
    fn noop(_: *const ()) {}
    fn clone(_: *const ()) -> RawWaker { RawWaker::new(std::ptr::null(), &VTABLE) }
    static VTABLE: RawWakerVTable = RawWakerVTable::new(clone, noop, noop, noop);
    let waker = unsafe { Waker::from_raw(RawWaker::new(std::ptr::null(), &VTABLE)) };
    let mut cx = Context::from_waker(&waker);
    let mut f = std::pin::pin!(f);
    match f.as_mut().poll(&mut cx) { Poll::Ready(v) => v, Poll::Pending => panic!("future suspended") }
}
