pub mod types;
#[cfg(kani)]
mod proofs {
    use super::types::*;
    use std::sync::Arc;
    use d_engine_core::*;
    use d_engine_proto::server::election::*;

    fn any_log() -> VLog {
        let len: u64 = kani::any(); kani::assume(len <= MAXLOG as u64);
        let terms: [u64; MAXLOG] = kani::any();
        VLog::new(len, terms)
    }

    #[kani::proof]
    #[kani::stub(std_catch_unwind, cu)]
    fn p0_legal() {
        let h = ElectionHandler::<VT>::new(1);
        let req = VoteRequest { term: kani::any(), candidate_id: kani::any(), last_log_index: kani::any(), last_log_term: kani::any() };
        let r = h.check_vote_request_is_legal(&req, kani::any(), kani::any(), kani::any(), None);
        kani::cover!(r);
    }
    #[kani::proof]
    #[kani::stub(std_catch_unwind, cu)]
    #[kani::unwind(8)]
    fn p0_log() {
        let log = any_log();
        let l = log.last_log_id();
        kani::cover!(l.is_some());
    }
    #[kani::proof]
    #[kani::stub(std_catch_unwind, cu)]
    fn p0_ready() {
        let v = run_ready(async { 3u32 });
        assert!(v == 3);
    }

    pub fn noop_cleanup() {}
    pub fn cu<F: FnOnce() -> R + std::panic::UnwindSafe, R>(f: F) -> std::thread::Result<R> { Ok(f()) }
    #[allow(unused_imports)]
    use std::panic::catch_unwind as std_catch_unwind;
    #[kani::proof]
    #[kani::stub(std_catch_unwind, cu)]
    fn p0_trace() {
        let x: u32 = kani::any();
        tracing::debug!("x = {}", x);
        assert!(x == x);
    }
    #[tracing::instrument]
    fn instr(a: u32) -> u32 { a + 1 }
    #[kani::proof]
    #[kani::stub(std_catch_unwind, cu)]
    fn p0_instr() {
        let x: u32 = kani::any(); kani::assume(x < 5);
        assert!(instr(x) == x + 1);
    }
    #[kani::proof]
    #[kani::stub(std_catch_unwind, cu)]
    fn p0_recent() {
        let r = d_engine_core::cluster::majority_count(kani::any::<u8>() as usize);
        assert!(r >= 1);
    }

    // P1: one vote per term, real handle_vote_request
    #[kani::proof]
    #[kani::stub(std_catch_unwind, cu)]
    #[kani::unwind(8)]
    fn p1_vote_once() {
        let h = ElectionHandler::<VT>::new(1);
        let log = Arc::new(any_log());
        let cur: u64 = kani::any();
        let vf: Option<VotedFor> = if kani::any() { Some(VotedFor{ voted_for_id: kani::any(), voted_for_term: kani::any(), committed: kani::any() }) } else { None };
        if let Some(v) = vf { kani::assume(v.voted_for_term <= cur); }
        let req = VoteRequest { term: kani::any(), candidate_id: kani::any(), last_log_index: kani::any(), last_log_term: kani::any() };
        let upd = run_ready(h.handle_vote_request(req, cur, vf, &log)).unwrap();
        if let Some(nv) = upd.new_voted_for {
            assert!(req.term >= cur);
            assert!(nv.voted_for_term == req.term && nv.voted_for_id == req.candidate_id);
            if req.term == cur { if let Some(v) = vf { if v.voted_for_term == cur { assert!(v.voted_for_id == req.candidate_id); } } }
        }
        kani::cover!(upd.new_voted_for.is_some());
    }

    use std::collections::HashMap;
    use d_engine_proto::common::{Entry, LogId};

    // p2: C08 kernel: contiguity of entries built by the real leader-side function
    #[kani::proof]
    #[kani::stub(std_catch_unwind, cu)]
    #[kani::unwind(7)]
    fn p2_repl() {
        let h = ReplicationHandler::<VT>::new(1);
        let log = Arc::new(any_log());
        let last = log.last_entry_id();
        let next: u64 = kani::any(); kani::assume(next >= 1 && next <= last + 1);
        let cap: u64 = kani::any(); kani::assume(cap >= 1 && cap <= 2);
        let nnew: u64 = kani::any(); kani::assume(nnew <= 1);
        // new entries were already inserted by generate_new_entries: they are the tail of the log
        kani::assume(nnew <= last);
        let before = last - nnew;
        kani::assume(next <= before + 1);
        let mut new_entries = Vec::new();
        let mut i = 0; while i < nnew { new_entries.push(Entry{ index: before + 1 + i, term: 1, payload: None }); i += 1; }
        let mut peers = HashMap::new();
        peers.insert(2u32, next);
        let out = h.retrieve_to_be_synced_logs_for_peers(&new_entries, before, cap, &peers, &log);
        if let Some(es) = out.get(&2u32) {
            let mut k = 0usize;
            while k < es.len() { assert!(es[k].index == next + k as u64); k += 1; }
        }
        std::mem::forget(out); std::mem::forget(peers); std::mem::forget(new_entries);
    }

    // p3: tokio unbounded channel
    #[kani::proof]
    #[kani::stub(std_catch_unwind, cu)]
    #[kani::unwind(4)]
    fn p3_mpsc() {
        let (tx, mut rx) = tokio::sync::mpsc::unbounded_channel::<u32>();
        let v: u32 = kani::any();
        tx.send(v).unwrap();
        let r = rx.try_recv().unwrap();
        assert!(r == v);
    }

    // p3b: tokio oneshot
    #[kani::proof]
    #[kani::stub(std_catch_unwind, cu)]
    #[kani::unwind(4)]
    fn p3b_oneshot() {
        let (tx, mut rx) = tokio::sync::oneshot::channel::<u32>();
        let v: u32 = kani::any();
        tx.send(v).unwrap();
        let r = rx.try_recv().unwrap();
        assert!(r == v);
    }

    // p4: Instant::now
    #[kani::proof]
    #[kani::stub(std_catch_unwind, cu)]
    fn p4_instant() {
        let a = tokio::time::Instant::now();
        let b = a + std::time::Duration::from_millis(5);
        assert!(b > a);
    }

    // p5: prost roundtrip
    #[kani::proof]
    #[kani::stub(std_catch_unwind, cu)]
    #[kani::unwind(12)]
    fn p5_prost() {
        use d_engine_proto::client::WriteCommand;
        use d_engine_proto::client::write_command::{Insert, Operation};
        use prost::Message;
        let k: u8 = kani::any(); let v: u8 = kani::any(); let ttl: u64 = kani::any();
        kani::assume(ttl < 128);
        let wc = WriteCommand { operation: Some(Operation::Insert(Insert { key: bytes::Bytes::from(vec![k]), value: bytes::Bytes::from(vec![v]), ttl_secs: ttl })) };
        let ps = client_command_to_entry_payloads(vec![wc.clone()]);
        let e = Entry { index: 1, term: 1, payload: Some(ps[0].clone()) };
        let d = decode_entries(vec![e]).unwrap();
        match &d[0].command {
            Command::Insert { key, value, ttl_secs } => {
                assert!(key[0] == k && value[0] == v);
                assert!(*ttl_secs == if ttl == 0 { None } else { Some(ttl) });
            }
            _ => assert!(false),
        }
    }

    // p6: skipmap
    #[kani::proof]
    #[kani::stub(std_catch_unwind, cu)]
    #[kani::unwind(40)]
    fn p6_skipmap() {
        let m = crossbeam_skiplist::SkipMap::<u64, u64>::new();
        let a: u64 = kani::any(); kani::assume(a < 4);
        m.insert(a, 7);
        assert!(m.get(&a).map(|e| *e.value()) == Some(7));
    }

    // p7: lease
    #[kani::proof]
    #[kani::stub(std_catch_unwind, cu)]
    fn p7_lease() {
        let l = ReadLease::new();
        let term: u64 = kani::any(); let dl: u64 = kani::any(); let now: u64 = kani::any();
        kani::assume(dl < (1u64 << 48));
        l.renew(term, dl);
        let t2: u64 = kani::any();
        let ok = l.is_valid_for_leader(t2, now);
        assert!(ok == ((t2 & 0xFFFF) == (term & 0xFFFF) && dl > now));
        l.revoke();
        assert!(!l.is_valid(now));
        assert!(!l.is_valid_for_leader(t2, now));
    }

    // p8: config validate
    #[kani::proof]
    #[kani::stub(std_catch_unwind, cu)]
    fn p8_config() {
        let mut c = RaftConfig::default();
        c.election.election_timeout_min = kani::any();
        c.election.election_timeout_max = kani::any();
        c.read_consistency.lease_duration_ms = kani::any();
        c.read_consistency.network_rtt_p99_ms = kani::any();
        c.replication.rpc_append_entries_clock_in_ms = kani::any();
        c.replication.append_entries_max_entries_per_replication = kani::any();
        c.snapshot.retained_log_entries = kani::any();
        if c.validate().is_ok() {
            assert!(c.election.election_timeout_min < c.election.election_timeout_max);
            assert!(c.read_consistency.lease_duration_ms < c.election.election_timeout_min);
            assert!(c.replication.rpc_append_entries_clock_in_ms > 0);
            assert!(c.snapshot.retained_log_entries >= 1);
        }
    }

    #[kani::proof]
    #[kani::stub(std_catch_unwind, cu)]
    #[kani::unwind(3)]
    fn p3c_send_only() {
        let (tx, rx) = tokio::sync::mpsc::unbounded_channel::<u32>();
        let v: u32 = kani::any();
        let r = tx.send(v);
        assert!(r.is_ok());
        std::mem::forget(tx); std::mem::forget(rx);
    }

    // ---- role-level probe ----
    use d_engine_core::verif_hooks as vh;
    pub fn stub_tokio_now() -> tokio::time::Instant {
        let base: std::time::Instant = unsafe { std::mem::zeroed() };
        tokio::time::Instant::from_std(base + std::time::Duration::from_millis(1000))
    }
    pub fn stub_std_now() -> std::time::Instant {
        let base: std::time::Instant = unsafe { std::mem::zeroed() };
        base + std::time::Duration::from_millis(1000)
    }
    pub fn stub_random(_min: u64, _max: u64) -> tokio::time::Duration { tokio::time::Duration::from_millis(5) }

    fn mk_raft(term: u64, vf: Option<VotedFor>, log: VLog) -> Raft<VT> {
        let cfg = Arc::new(RaftNodeConfig::default());
        let role = RaftRole::Follower(Box::new(d_engine_core::follower_state::FollowerState::<VT>::new(1, cfg.clone(), Some(HardState{ current_term: term, voted_for: vf }), None)));
        let (itx, irx) = tokio::sync::mpsc::unbounded_channel();
        let (etx, erx) = tokio::sync::mpsc::channel(8);
        let (ctx_, crx) = tokio::sync::mpsc::channel(8);
        let (_stx, srx) = tokio::sync::watch::channel(());
        let sp = SignalParams::new(itx, irx, etx, erx, ctx_, crx, srx);
        let storage = RaftStorageHandles::<VT> { raft_log: Arc::new(log), state_machine: Arc::new(VSm) };
        let handlers = RaftCoreHandlers::<VT> { election_handler: ElectionHandler::new(1), replication_handler: ReplicationHandler::new(1), state_machine_handler: Arc::new(VSmh), purge_executor: Arc::new(VPurge) };
        Raft::new(1, role, storage, VTr{ votes: std::sync::Mutex::new(None) }, handlers, Arc::new(VMem{ initial_size: 3, nvoters: 2 }), sp, cfg)
    }

    #[kani::proof]
    #[kani::stub(std_catch_unwind, cu)]
    #[kani::stub(tokio::time::Instant::now, stub_tokio_now)]
    #[kani::stub(std::time::Instant::now, stub_std_now)]
    #[kani::stub(d_engine_core::verif_hooks::ElectionTimer::random_duration, stub_random)]
    #[kani::unwind(6)]
    fn p9_follower_vote() {
        let term: u64 = kani::any();
        kani::assume(term < u64::MAX - 2);
        let mut raft = mk_raft(term, None, any_log());
        let req = VoteRequest { term: kani::any(), candidate_id: kani::any(), last_log_index: kani::any(), last_log_term: kani::any() };
        let (tx, rx) = MaybeCloneOneshot::new();
        let _ = run_ready(vh::raft_step_inbound(&mut raft, InboundEvent::ReceiveVoteRequest(req, tx)));
        let resp = run_ready(rx).unwrap().unwrap();
        let hs = vh::hard_state(&raft);
        assert!(hs.current_term >= term);
        if resp.vote_granted {
            assert!(hs.current_term == req.term);
            assert!(hs.voted_for.map(|v| v.voted_for_id) == Some(req.candidate_id));
        }
        kani::cover!(resp.vote_granted);
        std::mem::forget(raft);
    }
}
